package rules

import (
	"go/token"
	"go/types"
	"strings"

	. "abverif/internal/engine"

	"golang.org/x/tools/go/ssa"
)

// beforeHandlersIssueNothing: the handlers a login flow consults before it
// has decided (Before(EventAuth), Before(EventAuthHijack), Before(EventOAuth2))
// may veto or take the request over, but hand out nothing that authenticates:
// no session identity, no remember token, no remember cookie. At that moment a
// 2FA account has only shown its password.
func (c *Ctx) beforeHandlersIssueNothing(rule string) {
	r := c.R
	uid := c.P.ConstString("", "SessionKey")
	rm := c.P.ConstString("", "CookieRemember")
	n := 0
	for _, evn := range []string{"EventAuth", "EventAuthHijack", "EventOAuth2"} {
		for _, w := range c.Handlers(true, c.Event(evn)) {
			n++
			if w.Handler == nil {
				r.Unknown(rule, FuncName(w.In), "Before("+evn+")", posf(c, w.Call), "handler value could not be resolved to a function")
				continue
			}
			hn := FuncName(w.Handler)
			bad := ""
			at := "-"
			seen := map[*ssa.Function]bool{}
			var visit func(f *ssa.Function, d int)
			visit = func(f *ssa.Function, d int) {
				if seen[f] || d > 3 || bad != "" {
					return
				}
				seen[f] = true
				for _, op := range c.StateOps(f) {
					if op.Op == "put" && ((op.Store == "session" && op.Key == uid) || (op.Store == "cookie" && op.Key == rm)) {
						bad, at = op.String(), posf(c, op.Call)
					}
				}
				for _, call := range Calls(f) {
					if Callee(call) == fnAddRemember {
						bad, at = "AddRememberToken", posf(c, call)
					}
					if g := StaticCallee(call); g != nil && c.inRepo(g) && strings.HasPrefix(pkgOf(g), pkgOf(w.Handler)) {
						visit(g, d+1)
					}
				}
			}
			visit(w.Handler, 0)
			r.Check(bad == "", rule, hn, "Before("+evn+") handler issues nothing", at, "vetoes or takes over only", "a handler consulted before the login is decided hands out "+bad+": the password step of a two-factor account would already yield something that authenticates")
		}
	}
	if n < 4 {
		r.Unknown(rule, "", "census", "-", sprintf("only %d Before(EventAuth/EventAuthHijack/EventOAuth2) registrations found (confirmed by hand: 6)", n))
	}
}

// vetoOnlyAfterCheck: Before(EventAuth) is fired only once the credential of
// this request has been verified. lock.BeforeAuth refreshes the account's
// last-attempt time, so consulting it for a request whose credential is wrong
// (or not yet looked at) would make every failure look recent and would let a
// vetoed wrong attempt go uncounted.
func (c *Ctx) vetoOnlyAfterCheck(rule string) {
	r := c.R
	ev := c.Event("EventAuth")
	n := 0
	for _, fn := range c.P.Funcs {
		for _, f := range Fires(fn) {
			if !f.Before || !f.Const || f.Event != ev {
				continue
			}
			n++
			creds := c.CredsAt(f.Call.(ssa.Instruction))
			r.Check(len(creds) > 0, rule, FuncName(fn), "FireBefore(EventAuth)", posf(c, f.Call), "fired on the success side of "+credKinds(creds), "lock and confirm are consulted before this request's credential has been verified: lock.BeforeAuth stamps the attempt time for wrong attempts too (failures never leave the window) and a vetoed wrong attempt is not counted")
		}
	}
	if n < 4 {
		r.Unknown(rule, "", "census", "-", sprintf("only %d FireBefore(EventAuth) sites found (confirmed by hand: 5)", n))
	}
}

// localizeFallback: totp2fa decides "code accepted" by comparing the status
// text its validate() returns with Localizef(TxtSuccess). That comparison
// separates outcomes only while distinct keys give distinct texts; with a
// partial catalogue the Localizer answers "" for every missing key, so the
// helper must fall back to the key's own default text for an empty answer.
func (c *Ctx) localizeFallback(rule string) {
	r := c.R
	fn := c.P.Func("(*ab.Authboss).Localizef")
	name := FuncName(fn)
	isLoc := func(v ssa.Value) bool {
		call, _ := CallOf(v)
		return call != nil && call.Common().IsInvoke() && call.Common().Method.Name() == "Localizef"
	}
	isDef := func(v ssa.Value) bool {
		call, _ := CallOf(v)
		return call != nil && Callee(call) == "fmt.Sprintf"
	}
	// what each way of arriving at a return hands back: the formatted default
	// text, or the translation where a test on the way found it non-empty (the
	// returned value may be a merged one: single-exit style with a named result)
	why := ""
	var at ssa.Instruction
	q := PathQuery{StartBlock: fn.Blocks[0], GoalP: func(in ssa.Instruction, pv PathView) bool {
		ret, ok := in.(*ssa.Return)
		if !ok || len(ret.Results) != 1 {
			return false
		}
		if !pv.Precise() {
			return true
		}
		v := ret.Results[0]
		rv := pv.Resolve(v)
		switch {
		case isDef(rv):
			return false
		case isLoc(rv):
			ok := pv.PathFact(func(f Fact) bool {
				s := f.NonEmptySubject()
				return s != nil && (s == rv || s == v || pv.Resolve(s) == rv)
			})
			if !ok {
				why, at = "the Localizer's answer is returned even when it is empty: with a partial catalogue \"invalid code\" and \"success\" are both \"\", and totp2fa, which compares these texts, accepts any code (remove, validate)", ret
			}
			return !ok
		}
		why, at = "returns neither the translation nor the formatted default text", ret
		return true
	}}
	if p := q.Find(); p != nil {
		if why == "" {
			why = "a return hands back something other than a non-empty translation or the formatted default text"
		}
		pos := c.P.Pos(fn.Pos())
		if at != nil {
			pos = posf(c, at)
		}
		r.Bad(rule, name, "what Localizef returns", pos, why, c.P.DescribePath(p)...)
	} else {
		r.Ok(rule, name, "what Localizef returns", c.P.Pos(fn.Pos()), "every return hands back a non-empty translation or the formatted default text")
	}
	nDef := 0
	for _, call := range Calls(fn) {
		if Callee(call) == "fmt.Sprintf" {
			nDef++
		}
	}
	if nDef == 0 {
		r.Bad(rule, name, "default text", c.P.Pos(fn.Pos()), "the key's default text is never returned")
	}
}

// verdictNotAnError: in the login handlers, the error a credential checker
// returns IS the verdict "wrong credential". A handler that hands it back as
// its own error answers some wrong passwords (those the hasher rejects for
// another reason than a mismatch: a malformed, empty or foreign hash — the
// accounts the OAuth2 module creates have an empty one) with a server error,
// while an unknown account gets the ordinary "invalid credentials" page.
func (c *Ctx) verdictNotAnError(rule string) {
	r := c.R
	n := 0
	for _, hn := range []string{"(*ab/auth.Auth).LoginPost", "(*ab/otp.OTP).LoginPost"} {
		fn := c.P.FuncOpt(hn)
		if fn == nil {
			continue
		}
		for _, b := range fn.Blocks {
			if len(b.Instrs) == 0 {
				continue
			}
			ifi, ok := b.Instrs[len(b.Instrs)-1].(*ssa.If)
			if !ok {
				continue
			}
			for _, pol := range []bool{true, false} {
				cs := c.credOf(ifi.Cond, pol, 0)
				if len(cs) == 0 || !c.isAuthDecisionCred(cs) {
					continue
				}
				var verdicts []ssa.Value
				for _, cr := range flatten(cs) {
					if cr.Check != nil {
						if ve := ErrResult(cr.Check); ve != nil {
							verdicts = append(verdicts, ve)
						}
					}
				}
				if len(verdicts) == 0 {
					continue
				}
				n++
				failSucc := b.Succs[1]
				if !pol {
					failSucc = b.Succs[0]
				}
				q := PathQuery{StartBlock: failSucc, StartPred: b, Goal: func(i ssa.Instruction) bool {
					ret, ok := i.(*ssa.Return)
					if !ok || len(ret.Results) == 0 {
						return false
					}
					for _, ve := range verdicts {
						if carriesErr(ve, ret.Results[len(ret.Results)-1], 0) {
							return true
						}
					}
					return false
				}}
				if p := q.Find(); p != nil {
					r.Bad(rule, FuncName(fn), "verdict of "+credKinds(cs)+" returned as an error", posf(c, ifi), "a rejected credential can leave the handler as a server error (the checker's own error is returned) instead of the invalid-credentials answer an unknown account gets", c.P.DescribePath(p)...)
				} else {
					r.Ok(rule, FuncName(fn), "verdict of "+credKinds(cs)+" returned as an error", posf(c, ifi), "every rejection is answered as invalid credentials")
				}
			}
		}
	}
	if n == 0 {
		r.Unknown(rule, "", "decisions", "-", "no error-valued credential decision found in the login handlers")
	}
}

// ctxUserFirst: while an event handler runs, the user a flow is acting on is
// the one the firing handler attached to the request (CTXKeyUser); the
// session's own identity may be a different account (somebody already logged
// in on this browser) or none at all. CurrentUser and LoadCurrentUser must
// therefore answer with the attached user whenever there is one, before they
// look at the session: lock's and confirm's vetoes, remember's token issue
// and revocation all ask CurrentUser whom they are deciding about.
func (c *Ctx) ctxUserFirst(rule string) {
	r := c.R
	for _, fname := range []string{fnCurrentUser, fnLoadCurrentUser} {
		fn := c.P.Func(fname)
		name := FuncName(fn)
		// the attached user
		var attached []ssa.Value
		for _, call := range CallsTo(fn, fnCtxValue) {
			if k, isC := ConstStr(ctxKeyArg(call)); isC && k == "user" {
				attached = append(attached, call.Value())
			}
		}
		if len(attached) == 0 {
			r.Bad(rule, name, "ctx[user] consulted", c.P.Pos(fn.Pos()), "the user attached to the request is never consulted: handlers that ask whom a flow is acting on get the session's identity instead")
			continue
		}
		var isAttached func(v ssa.Value) bool
		isAttached = func(v ssa.Value) bool {
			if phi, ok := v.(*ssa.Phi); ok {
				// handed out of a helper: nil on its "none" path, the attached user otherwise
				n := 0
				for _, e := range phi.Edges {
					if IsNilConst(e) {
						continue
					}
					if e == v || !isAttached(e) {
						return false
					}
					n++
				}
				return n > 0
			}
			for {
				switch x := v.(type) {
				case *ssa.TypeAssert:
					v = x.X
					continue
				case *ssa.Extract:
					v = x.Tuple
					continue
				case *ssa.ChangeInterface:
					v = x.X
					continue
				}
				break
			}
			for _, a := range attached {
				if a == v {
					return true
				}
			}
			return false
		}
		absent := func(f Fact) bool {
			rel := f.Rel()
			if rel.Op == token.EQL && IsNilConst(rel.Y) && isAttached(rel.X) {
				return true
			}
			// comma-ok assertion failed
			if rel.B != nil && !rel.Pol {
				if e, ok := rel.B.(*ssa.Extract); ok && e.Index == 1 {
					if ta, ok := e.Tuple.(*ssa.TypeAssert); ok && isAttached(ta.X) {
						return true
					}
				}
			}
			return false
		}
		n := 0
		for _, call := range Calls(fn) {
			cn := Callee(call)
			if cn != fnCurrentUserID && cn != fnLoadCurrentUserID && cn != fnLoad && cn != fnGetSession {
				g := StaticCallee(call)
				if g == nil || !c.inRepo(g) || !c.isUserType(firstResultType(g)) {
					continue
				}
			}
			n++
			r.Check(HasFact(FactsAtInstr(call.(ssa.Instruction)), absent), rule, name, "session consulted only without an attached user", posf(c, call), "ctx[user] absent here", "the session identity ("+cn+") is consulted although a user may be attached to the request: whenever the two differ, the vetoes and the remember hooks decide about the wrong account")
		}
		if n == 0 {
			r.Unknown(rule, name, "session look-up", "-", "no look-up of the session identity found")
		}
		// and the attached user is what is returned
		okRet := false
		for _, b := range fn.Blocks {
			if ret, ok := b.Instrs[len(b.Instrs)-1].(*ssa.Return); ok && len(ret.Results) == 2 && isAttached(ret.Results[0]) && IsNilConst(ret.Results[1]) {
				okRet = true
			}
		}
		r.Check(okRet, rule, name, "attached user returned", c.P.Pos(fn.Pos()), "the attached user is the answer", "no return hands back the user attached to the request")
	}
}

func firstResultType(f *ssa.Function) types.Type {
	res := f.Signature.Results()
	if res.Len() == 0 {
		return types.Typ[types.Invalid]
	}
	return res.At(0).Type()
}

// moduleCopied: every Authboss instance initialises its own copy of a
// registered module. A module object holds the *Authboss it was initialised
// with; if instances shared the registered object, the routes of an earlier
// instance would act on the storage, token generator and configuration of the
// instance initialised last (a recovery token of one realm accepted in the
// other). Decided on loadModule: the value whose Init is called and that is
// stored in loadedModules derives from reflect.New only, never from the
// address of the registered value.
func (c *Ctx) moduleCopied(rule string) {
	r := c.R
	fn := c.P.FuncOpt("(*ab.Authboss).loadModule")
	if fn == nil {
		// find by role: the function calling Moduler.Init
		for _, f := range c.P.Funcs {
			for _, call := range Calls(f) {
				if call.Common().IsInvoke() && call.Common().Method.Name() == "Init" && strings.HasSuffix(call.Common().Value.Type().String(), ".Moduler") {
					fn = f
				}
			}
		}
	}
	if fn == nil {
		r.Unknown(rule, "ab", "module loader", "-", "the function that initialises registered modules was not found")
		return
	}
	name := FuncName(fn)
	n := 0
	for _, call := range Calls(fn) {
		cc := call.Common()
		if !cc.IsInvoke() || cc.Method.Name() != "Init" {
			continue
		}
		n++
		bad := ""
		seen := map[ssa.Value]bool{}
		nNew := 0
		var walk func(v ssa.Value, d int)
		walk = func(v ssa.Value, d int) {
			if v == nil || seen[v] || d > 12 || bad != "" {
				return
			}
			seen[v] = true
			switch x := v.(type) {
			case *ssa.TypeAssert:
				walk(x.X, d+1)
			case *ssa.Extract:
				walk(x.Tuple, d+1)
			case *ssa.Phi:
				for _, e := range x.Edges {
					walk(e, d+1)
				}
			case *ssa.Call:
				switch Callee(x) {
				case "reflect.New":
					nNew++
				case "(reflect.Value).Interface", "(reflect.Value).Elem", "reflect.Indirect":
					walk(x.Call.Args[0], d+1)
				case "(reflect.Value).Addr", "reflect.ValueOf":
					bad = Callee(x) + " at " + c.P.InstrPos(x)
				default:
					bad = "result of " + Callee(x)
				}
			case *ssa.UnOp:
				if a, ok := x.X.(*ssa.Alloc); ok && a.Referrers() != nil {
					for _, ref := range *a.Referrers() {
						if st, ok := ref.(*ssa.Store); ok && st.Addr == ssa.Value(a) {
							walk(st.Val, d+1)
						}
					}
					return
				}
				bad = "a loaded value " + SafeString(x)
			default:
				bad = SafeString(v)
			}
		}
		walk(cc.Value, 0)
		r.Check(bad == "" && nNew > 0, rule, name, "Init on a fresh copy", posf(c, call), "the module initialised is a new value made with reflect.New", "the module that is initialised and kept is not (only) a fresh copy of the registered one ("+bad+"): Authboss instances share module objects, and each Init overwrites the instance the earlier routes act on")
	}
	if n == 0 {
		r.Unknown(rule, name, "Init", "-", "no Init call found in the module loader")
	}
}

// mwOutermost: on every route of every module that is wrapped by the
// authentication middleware, that middleware is the outermost wrapper that can
// answer the request itself (the error handler wrapper only converts errors):
// a request that does not meet the requirements gets exactly the configured
// refusal.
func (c *Ctx) mwOutermost(rule string) {
	r := c.R
	n := 0
	for _, rt := range c.Routes() {
		for _, alt := range rt.Alts {
			iMW := -1
			for i, w := range alt.Wrappers {
				if w.Kind == "MW2" {
					iMW = i
					break
				}
			}
			if iMW < 0 {
				continue
			}
			n++
			bad := ""
			for i := 0; i < iMW; i++ {
				if k := alt.Wrappers[i].Kind; k != "ErrorHandler.Wrap" {
					bad = k
				}
			}
			r.Check(bad == "", rule, FuncName(rt.In), rt.Method+" "+rt.Path+"{"+strings.Join(alt.Cond, ",")+"}", posf(c, rt.Call), "the authentication middleware is the first gate", "a wrapper that answers requests itself ("+bad+") sits outside the authentication middleware on this route: an unauthenticated or half-authenticated request is answered by it instead of the configured 404 / 401 / login redirect")
		}
	}
	if n < 10 {
		r.Unknown(rule, "", "census", "-", sprintf("only %d route alternatives behind the authentication middleware found (confirmed by hand: more than 30)", n))
	}
}

// halfAuthUpgradeGated: deleting the half-auth mark turns a remembered
// session into a fully authenticated one, which is what the 2FA settings
// routes require. It is therefore gated like the issue of a session: behind a
// credential, and — when that credential is a first factor — behind the
// not-handled outcome of FireBefore(EventAuthHijack), so that the password
// step of a two-factor account does not upgrade the session on its own.
func (c *Ctx) halfAuthUpgradeGated(rule string) {
	r := c.R
	half := c.P.ConstString("", "SessionHalfAuthKey")
	hij := c.Event("EventAuthHijack")
	n := 0
	for _, fn := range c.P.Funcs {
		name := FuncName(fn)
		pk := pkgOf(fn)
		if pk == "ab/logout" || pk == "ab/expire" || pk == "ab" {
			continue // removal of the whole session, not an upgrade
		}
		for _, op := range c.StateOps(fn) {
			if op.Op != "del" || op.Store != "session" || op.Key != half {
				continue
			}
			n++
			pos := posf(c, op.Call)
			creds := c.CredsAt(op.Call.(ssa.Instruction))
			if len(creds) == 0 {
				r.Bad(rule, name, "DelSession("+half+")", pos, "the half-auth mark is removed (the session becomes fully authenticated) without a dominating credential check")
				continue
			}
			if !c.isPrimaryCred(creds) {
				r.Ok(rule, name, "DelSession("+half+")", pos, "behind "+credKinds(creds))
				continue
			}
			gated := false
			for _, g := range c.gateFires(op.Call.(ssa.Instruction)) {
				if g.Event == hij {
					gated = true
				}
			}
			r.Check(gated, rule, name, "DelSession("+half+")", pos, "behind "+credKinds(creds)+" and the not-handled outcome of FireBefore(EventAuthHijack)", "the half-auth mark is removed on the strength of a first factor alone, before (or regardless of) the second-factor hand-over: a remembered session of a two-factor account becomes fully authenticated by the password step and passes RequireFullAuth on the 2FA settings routes")
		}
	}
	if n < 3 {
		r.Unknown(rule, "", "census", "-", sprintf("only %d removals of the half-auth mark found in the login flows (confirmed by hand: 6)", n))
	}
}

// lockEnforced: every interactive login is gated by the not-handled outcome
// of a Before event on which lock registers its veto — "stays locked for
// LockDuration" means nothing if a flow can issue the session before (or
// without) asking.
func (c *Ctx) lockEnforced(rule string) {
	r := c.R
	if c.P.ByPath[RepoPath+"/lock"] == nil {
		return
	}
	listens := map[int64]*ssa.Function{}
	for _, w := range c.wiring {
		if w.Before && w.Const && !w.Conditional && pkgOf(w.In) == "ab/lock" && w.Handler != nil {
			listens[w.Event] = w.Handler
		}
	}
	if len(listens) == 0 {
		r.Bad(rule, "ab/lock", "Before(*)", "-", "lock registers no veto at all")
		return
	}
	n := 0
	for _, s := range c.Issuances() {
		if !s.Op.Const {
			continue
		}
		creds := c.CredsAt(s.Op.Call)
		if !isInteractive(creds) {
			continue
		}
		n++
		covered := ""
		gates := c.gateFires(s.Op.Call)
		for _, g := range gates {
			if h := listens[g.Event]; h != nil {
				covered = c.EventName(g.Event)
			}
		}
		r.Check(covered != "", rule, FuncName(s.Fn), "PutSession(uid) behind the lock veto", posf(c, s.Op.Call), "gated by not-handled of FireBefore("+covered+")", "the session is written without (or before) the not-handled outcome of an event lock vetoes on (gates seen: "+c.fireNames(gates)+"): a locked account gets the session, the veto's redirect flushes it")
	}
	if n == 0 {
		r.Unknown(rule, "", "sites", "-", "no interactive issuance site found")
	}
}

// vetoesFirst: the handlers consulted on Before(EventAuth) are the vetoes
// (lock, confirm). A handler of another module there — a second-factor
// hand-over belongs on EventAuthHijack, which is fired after the vetoes — can
// answer a correct password before lock has given its (password-independent)
// verdict: a locked account's response then depends on the password.
func (c *Ctx) vetoesFirst(rule string) {
	r := c.R
	n := 0
	for _, w := range c.wiring {
		if !w.Before || !w.Const || w.Event != c.Event("EventAuth") || strings.HasSuffix(pkgOf(w.In), "/mocks") {
			continue
		}
		n++
		pk := pkgOf(w.In)
		r.Check(pk == "ab/lock" || pk == "ab/confirm", rule, FuncName(w.In), "Before(EventAuth)->"+w.Name, posf(c, w.Call), "a veto module", "a module other than lock/confirm ("+pk+") answers on Before(EventAuth): depending on initialisation order it runs ahead of lock's veto and responds to correct passwords only")
	}
	if n == 0 {
		r.Unknown(rule, "", "Before(EventAuth)", "-", "no registration on Before(EventAuth) found")
	}
}

// rememberOnlyOnTrue: the default reader's answer to "does the user want to be
// remembered" is yes only for the literal value "true" of the rm field.
func (c *Ctx) rememberOnlyOnTrue(rule string) {
	r := c.R
	fn := c.P.FuncOpt("(ab/defaults.UserValues).GetShouldRemember")
	if fn == nil {
		return
	}
	name := FuncName(fn)
	isTrueLiteral := func(f Fact) bool {
		rel := f.Rel()
		if rel.Op != token.EQL {
			return false
		}
		s, ok := ConstStr(rel.Y)
		if !ok || s != "true" {
			return false
		}
		x := rel.X
		if e, isE := x.(*ssa.Extract); isE {
			x = e.Tuple
		}
		lk, isLk := x.(*ssa.Lookup)
		if !isLk {
			return false
		}
		k, isC := ConstStr(lk.Index)
		return isC && k == c.P.ConstString("", "CookieRemember")
	}
	n := 0
	for _, b := range fn.Blocks {
		ret, ok := b.Instrs[len(b.Instrs)-1].(*ssa.Return)
		if !ok || len(ret.Results) != 1 {
			continue
		}
		n++
		if cb, isC := ConstBool(ret.Results[0]); isC && !cb {
			continue
		}
		fs := append(append([]Fact{}, FactsAtInstr(ret)...), Fact{Cond: ret.Results[0], Pol: true})
		r.Check(HoldsGiven(fs, isTrueLiteral), rule, name, "true only for rm == \"true\"", posf(c, ret), "a yes requires the literal value", "the reader says the user asked to be remembered although the rm field is not \"true\" (a present but different value, e.g. rm=false, counts as yes): a remember cookie is issued that was not asked for")
	}
	if n == 0 {
		r.Unknown(rule, name, "returns", "-", "no return found")
	}
}

// apiStatusVerbatim: in JSON mode the redirector answers with the status the
// caller asked for; the only substitution (200 for 307/308) happens under the
// CorceRedirectTo200 option.
func (c *Ctx) apiStatusVerbatim(rule string) {
	r := c.R
	fn := c.P.FuncOpt("(ab/defaults.Redirector).redirectAPI")
	if fn == nil {
		return
	}
	name := FuncName(fn)
	n := 0
	for _, call := range CallsTo(fn, "(net/http.ResponseWriter).WriteHeader") {
		n++
		a := Arg(call, 0)
		if fieldLoadName(a) == "Code" {
			r.Ok(rule, name, "WriteHeader(ro.Code)", posf(c, call), "the requested status")
			continue
		}
		isCoerce := func(f Fact) bool {
			rel := f.Rel()
			return rel.B != nil && rel.Pol && fieldLoadName(rel.B) == "CorceRedirectTo200"
		}
		coerced := HoldsAt(call.(ssa.Instruction), isCoerce)
		if phi, isPhi := a.(*ssa.Phi); isPhi && !coerced {
			// status chosen by a (now inlined) helper: each alternative is the requested
			// code, or a substitute chosen under the option
			coerced = true
			for i, e := range phi.Edges {
				if fieldLoadName(e) == "Code" {
					continue
				}
				// "no status asked for" spelled as the literal the requested code was
				// just found to equal (and which the write is guarded against)
				if k, isC := ConstInt(e); isC && HoldsGiven(FactsAtEdge(phi.Block().Preds[i], phi.Block()), func(f Fact) bool {
					rel := f.Rel()
					if rel.Op != token.EQL {
						return false
					}
					kk, isK := ConstInt(rel.Y)
					return isK && kk == k && fieldLoadName(rel.X) == "Code"
				}) {
					continue
				}
				if !HoldsGiven(FactsAtEdge(phi.Block().Preds[i], phi.Block()), isCoerce) {
					coerced = false
				}
			}
		}
		r.Check(coerced, rule, name, "WriteHeader(<other>)", posf(c, call), "substituted only under CorceRedirectTo200", "the JSON answer's status is replaced ("+SafeString(a)+") without the CorceRedirectTo200 option being set: API clients get 200 where the configured refusal or redirect status was asked for")
	}
	if n == 0 {
		r.Unknown(rule, name, "WriteHeader", "-", "no status write found")
	}
}

// noStateAfterWrite: a session or cookie change made after the function has
// already produced the response (redirect, status, body, or the downstream
// handler) is queued behind the single flush and never delivered.
func (c *Ctx) noStateAfterWrite(rule string) {
	r := c.R
	isWrite := func(i ssa.Instruction) bool {
		call, ok := i.(ssa.CallInstruction)
		if !ok {
			return false
		}
		switch Callee(call) {
		case "net/http.Redirect", "net/http.Error", "(net/http.ResponseWriter).Write", "(net/http.ResponseWriter).WriteHeader", "io.WriteString", fnRespond, fnRedirect, fnServeHTTP:
			return true
		}
		return false
	}
	n := 0
	for _, fn := range c.P.Funcs {
		ops := c.StateOps(fn)
		if len(ops) == 0 {
			continue
		}
		var writes []ssa.Instruction
		for _, b := range fn.Blocks {
			for _, in := range b.Instrs {
				if isWrite(in) {
					writes = append(writes, in)
				}
			}
		}
		if len(writes) == 0 {
			continue
		}
		for _, op := range ops {
			if op.Op == "get" {
				continue
			}
			n++
			late := ""
			if _, isDefer := op.Call.(*ssa.Defer); isDefer {
				// a deferred change is made when the function returns: after every write the function does
				for _, w := range writes {
					if Reaches(op.Call.(ssa.Instruction), w) {
						late = c.P.InstrPos(w)
					}
				}
				if late != "" {
					r.Bad(rule, FuncName(fn), op.String()+" deferred past the response", posf(c, op.Call), "this change is deferred to the function's return, after the response was produced at "+late+": the client state was flushed with the first header byte, so the change never reaches the store")
				}
				continue
			}
			for _, w := range writes {
				if w != op.Call.(ssa.Instruction) && Reaches(w, op.Call.(ssa.Instruction)) && !Reaches(op.Call.(ssa.Instruction), w) {
					late = c.P.InstrPos(w)
				}
			}
			if late != "" {
				r.Bad(rule, FuncName(fn), op.String()+" after the response", posf(c, op.Call), "this change is made after the response was produced at "+late+": the client state was flushed with the first header byte, so the change never reaches the store")
			}
		}
	}
	r.Extra["state_ops_in_writing_functions"] = n
	if n > 0 {
		r.Ok(rule, "all packages", "state changes precede the response", "-", sprintf("%d session/cookie changes in functions that also write the response: none is reachable only after the write", n))
	}
}

// providerErrors: the functions that fetch the user's details from the
// provider hand every error they meet back to the callback. A swallowed error
// (for instance wrapping the wrong, nil, variable) returns (nil, nil): the
// callback carries on with no details and logs the browser in as the account
// with the empty uid.
func (c *Ctx) providerErrors(rule string) {
	r := c.R
	n := 0
	for _, fn := range c.P.Funcs {
		if pkgOf(fn) != "ab/oauth2" || fn.Parent() != nil {
			continue
		}
		res := fn.Signature.Results()
		if res.Len() != 2 || !IsErrorType(res.At(1).Type()) || !strings.HasPrefix(res.At(0).Type().String(), "map[string]string") {
			continue
		}
		for _, call := range Calls(fn) {
			if ErrResult(call) == nil {
				continue
			}
			if _, isDefer := call.(*ssa.Defer); isDefer {
				continue
			}
			if cn := Callee(call); isErrorCtor(cn) || strings.Contains(cn, "errors.") {
				continue // builds the error that is handed back
			}
			if call.Common().IsInvoke() && call.Common().Method.Name() == "Close" {
				continue // closing the body that was read: deferred or not, nothing depends on it
			}
			n++
			k, _ := c.errHandling(call)
			ok := k == "returned"
			why := "error is " + k
			if k == "tested" {
				ok, why = c.errPropagated(call)
			}
			r.Check(ok, rule, FuncName(fn), Callee(call)+".err", posf(c, call), "handed back to the callback", "an error met while fetching the provider's user details is not handed back ("+why+"): the function answers (nil, nil) and the callback logs the browser in with empty details")
		}
	}
	if n == 0 {
		r.Info(rule, "ab/oauth2", "provider detail functions", "-", "no provider detail fetcher with error-returning calls found")
	}
}

// providerUIDVerbatim: the provider detail functions report as the user's id
// the "id" member of the provider's answer exactly as it was sent: the value
// stored under the uid key is a load of a field of the decoded answer whose
// type is a plain string decoded by encoding/json itself (no conversion
// function in between, no custom UnmarshalJSON/UnmarshalText on the field's
// type that could round, fold or re-format the id).
func (c *Ctx) providerUIDVerbatim(rule string) {
	r := c.R
	uidKey := c.P.ConstString("oauth2", "OAuth2UID")
	n := 0
	for _, fn := range c.P.Funcs {
		if pkgOf(fn) != "ab/oauth2" || fn.Parent() != nil {
			continue
		}
		res := fn.Signature.Results()
		if res.Len() != 2 || !IsErrorType(res.At(1).Type()) || !strings.HasPrefix(res.At(0).Type().String(), "map[string]string") {
			continue
		}
		for _, b := range fn.Blocks {
			for _, in := range b.Instrs {
				mu, ok := in.(*ssa.MapUpdate)
				if !ok {
					continue
				}
				if k, isC := ConstStr(mu.Key); !isC || k != uidKey {
					continue
				}
				n++
				v := mu.Value
				conv := ""
				for {
					switch x := v.(type) {
					case *ssa.ChangeType:
						v = x.X
						continue
					case *ssa.Convert:
						conv = x.X.Type().String() + " → " + x.Type().String()
						v = x.X
						continue
					}
					break
				}
				ld, isLd := v.(*ssa.UnOp)
				var fa *ssa.FieldAddr
				if isLd {
					fa, _ = ld.X.(*ssa.FieldAddr)
				}
				if fa == nil {
					r.Bad(rule, FuncName(fn), "details[uid]", posf(c, mu), "the id reported for the user is not a member of the provider's decoded answer taken as it is ("+SafeString(mu.Value)+"): a transformed id can merge distinct users into one account")
					continue
				}
				ft := ld.Type()
				why := ""
				if bt, isB := ft.Underlying().(*types.Basic); !isB || bt.Kind() != types.String {
					why = "the id member is decoded as " + ft.String() + ", not as a string"
				}
				if named, isN := ft.(*types.Named); isN {
					ms := types.NewMethodSet(types.NewPointer(named))
					for i := 0; i < ms.Len(); i++ {
						if mn := ms.At(i).Obj().Name(); mn == "UnmarshalJSON" || mn == "UnmarshalText" {
							why = "the id member's type " + named.Obj().Name() + " decodes itself (" + mn + "): the id is no longer taken as the provider sent it"
						}
					}
				}
				_ = conv
				r.Check(why == "", rule, FuncName(fn), "details[uid]", posf(c, mu), "the provider's id member, a plain string, as decoded", why+": ids the provider distinguishes can collapse into one (e.g. numbers rounded through float64)")
			}
		}
	}
	if n == 0 {
		r.Unknown(rule, "ab/oauth2", "provider detail functions", "-", "no provider detail function stores the provider's id under the uid key in a way the rule can read (a constant key and a field of the decoded answer): whether the id is taken as the provider sent it cannot be decided")
	}
}

// lockedResponseFixed: what the lock routine sends to a locked account does
// not depend on anything the submitted password can influence. The routine
// runs for both password outcomes and updates the lock state differently for
// them (a wrong password re-arms the lock and raises the count), so a
// response built from that state — the remaining lock time, the attempt
// count, the last-attempt time — or from the outcome flag or the clock tells
// the two outcomes apart. Every field of the RedirectOptions it answers with
// must therefore be free of those sources.
func (c *Ctx) lockedResponseFixed(rule string) {
	r := c.R
	fail := c.P.FuncOpt("(*ab/lock.Lock).AfterAuthFail")
	if fail == nil {
		return
	}
	uls := c.P.FuncOpt("(*ab/lock.Lock).updateLockedState")
	if uls == nil {
		uls = c.calleeWith(fail, func(f *ssa.Function) bool { return len(c.userCalls(f, "PutAttemptCount")) > 0 })
	}
	if uls == nil {
		r.Unknown(rule, "ab/lock", "lock-state routine", "-", "not found")
		return
	}
	name := FuncName(uls)
	n := 0
	for _, call := range Calls(uls) {
		if Callee(call) != fnRedirect {
			continue
		}
		opts := Arg(call, 2)
		u, ok := opts.(*ssa.UnOp)
		if !ok {
			continue
		}
		a, ok := u.X.(*ssa.Alloc)
		if !ok || a.Referrers() == nil {
			continue
		}
		for _, ref := range *a.Referrers() {
			fa, ok := ref.(*ssa.FieldAddr)
			if !ok || fa.Referrers() == nil {
				continue
			}
			for _, rr := range *fa.Referrers() {
				st, ok := rr.(*ssa.Store)
				if !ok {
					continue
				}
				n++
				var bad []string
				seen := map[ssa.Value]bool{}
				var walk func(v ssa.Value, d int)
				walk = func(v ssa.Value, d int) {
					if v == nil || d > 14 || seen[v] {
						return
					}
					seen[v] = true
					switch x := v.(type) {
					case *ssa.Parameter:
						if len(uls.Params) > 0 && v == ssa.Value(uls.Params[len(uls.Params)-1]) && (isBoolType(v.Type()) || c.lockModeOf(uls) != nil) {
							bad = append(bad, "the password outcome")
						}
					case *ssa.Call:
						cc := x.Common()
						if cc.IsInvoke() {
							switch cc.Method.Name() {
							case "GetLocked", "GetAttemptCount", "GetLastAttempt":
								bad = append(bad, "the lock state ("+cc.Method.Name()+")")
							}
							return // other accessors and interface calls: configuration, localisation
						}
						if Callee(x) == "time.Now" {
							bad = append(bad, "the clock")
							return
						}
						for _, a := range cc.Args {
							walk(a, d+1)
						}
					case *ssa.BinOp:
						walk(x.X, d+1)
						walk(x.Y, d+1)
					case *ssa.UnOp:
						if x.Op == token.MUL {
							return // a load: configuration fields, package-level texts
						}
						walk(x.X, d+1)
					case *ssa.Convert:
						walk(x.X, d+1)
					case *ssa.ChangeType:
						walk(x.X, d+1)
					case *ssa.MakeInterface:
						walk(x.X, d+1)
					case *ssa.Extract:
						walk(x.Tuple, d+1)
					case *ssa.Phi:
						for _, e := range x.Edges {
							walk(e, d+1)
						}
						// what decides between the operands
						for _, p := range x.Block().Preds {
							if len(p.Instrs) > 0 {
								if ifi, ok := p.Instrs[len(p.Instrs)-1].(*ssa.If); ok {
									walk(ifi.Cond, d+1)
								}
							}
						}
					case *ssa.Slice:
						for _, e := range varargElems(x) {
							walk(e, d+1)
						}
					}
				}
				walk(st.Val, 0)
				r.Check(len(bad) == 0, rule, name, "RedirectOptions."+fieldName(fa), posf(c, st), "does not depend on the lock state, the outcome or the clock", "the response to a locked account is built from "+strings.Join(uniq(bad), ", ")+", which differs between a correct and a wrong password (a wrong one re-arms the lock): the response reveals whether the password was right")
			}
		}
	}
	if n == 0 {
		r.Info(rule, name, "RedirectOptions", "-", "the lock routine builds no redirect of its own")
	}
}

// successResets: a login that the lock module gates (it fires
// Before(EventAuth)) also tells it that it succeeded: after the session is
// written, every completing path fires an After event on which lock registers
// the handler that resets the failure count. A login that never reports its
// success leaves the earlier failures standing, and one more mistake locks
// the account.
func (c *Ctx) successResets(rule string) {
	r := c.R
	resetOn := map[int64]bool{}
	for _, w := range c.wiring {
		if w.Before || !w.Const || w.Conditional || pkgOf(w.In) != "ab/lock" || w.Handler == nil {
			continue
		}
		for _, call := range c.userCalls(w.Handler, "PutAttemptCount") {
			if n, isC := ConstInt(Arg(call, 0)); isC && n == 0 {
				resetOn[w.Event] = true
			}
		}
	}
	if len(resetOn) == 0 {
		r.Info(rule, "ab/lock", "After(*) → reset", "-", "lock registers no resetting After handler")
		return
	}
	evAuth := c.Event("EventAuth")
	for _, s := range c.Issuances() {
		if !s.Op.Const {
			continue
		}
		gated := false
		for _, f := range Fires(s.Fn) {
			if f.Before && f.Const && f.Event == evAuth && (InstrDominates(f.Call.(ssa.Instruction), s.Op.Call.(ssa.Instruction)) || Reaches(f.Call.(ssa.Instruction), s.Op.Call.(ssa.Instruction))) {
				gated = true
			}
		}
		if !gated {
			continue
		}
		isReset := func(i ssa.Instruction) bool {
			for _, f := range Fires(s.Fn) {
				if !f.Before && f.Const && resetOn[f.Event] && f.Call.(ssa.Instruction) == i {
					return true
				}
			}
			return false
		}
		q := PathQuery{From: s.Op.Call.(ssa.Instruction), Cut: isReset, GoalP: c.nonErrorReturn}
		name := FuncName(s.Fn)
		if p := q.Find(); p != nil {
			r.Bad(rule, name, "PutSession(uid) ⇒ After(reset event)", posf(c, s.Op.Call), "a login that lock gated completes without firing the After event on which lock resets the failure count: earlier failures keep counting after a successful login", c.P.DescribePath(p)...)
		} else {
			r.Ok(rule, name, "PutSession(uid) ⇒ After(reset event)", posf(c, s.Op.Call), "every completing path reports the success to lock")
		}
	}
}

// readStateErrors: a client-state store that cannot be read ends the request
// with its error. A handler run after a failed read sees an empty session
// where the client holds one (an anonymous request instead of the logged-in
// user's), and what it then writes replaces the client's state.
func (c *Ctx) readStateErrors(rule string) {
	r := c.R
	n := 0
	for _, fn := range c.P.Funcs {
		if strings.HasSuffix(pkgOf(fn), "/mocks") {
			continue
		}
		for _, call := range CallsTo(fn, "(ab.ClientStateReadWriter).ReadState") {
			n++
			k, _ := c.errHandling(call)
			ok := k == "returned"
			why := "error is " + k
			if k == "tested" {
				ok, why = c.errPropagated(call)
			}
			r.Check(ok, rule, FuncName(fn), "ReadState.err", posf(c, call), "handed back to the caller", "the store's read error is not handed back ("+why+"): the request goes on without the state the client holds")
		}
	}
	r.Check(n >= 1, rule, "ab", "ReadState call sites", "-", sprintf("%d", n), "no ReadState call site found")
}

// routeRequirements: the requirement bits a module hands to the access
// middleware are the ones its routes need — every route of the second-factor
// packages whose handler can change the account's second factor (or
// regenerate its recovery codes) sits behind the middleware with
// RequireFullAuth among its bits, in every configuration alternative. (The
// middleware admits a request exactly when the requirements it was GIVEN hold;
// this is the other half: it is given the right ones.)
func (c *Ctx) routeRequirements(rule string) {
	r := c.R
	full := c.P.ConstInt("", "RequireFullAuth")
	n := 0
	for _, rt := range c.Routes() {
		if !strings.HasPrefix(pkgOf(rt.In), "ab/otp") {
			continue
		}
		for _, alt := range rt.Alts {
			if alt.Unknown != "" || alt.Inner == nil {
				continue // reported by C13.route
			}
			page := ""
			if alt.Recv != nil {
				page, _ = pageOf(alt.Recv)
			}
			sens := c.reachSensitive(alt.Inner, page, 0, map[*ssa.Function]bool{})
			if len(sens) == 0 {
				continue
			}
			n++
			hasFull := false
			for _, w := range alt.Wrappers {
				if w.Kind == "MW2" && w.Reqs >= 0 && w.Reqs&full == full {
					hasFull = true
				}
			}
			key := rt.Method + " " + rt.Path + "→" + FuncName(alt.Inner)
			if page != "" {
				key += "[" + page + "]"
			}
			if len(alt.Cond) > 0 {
				key += "{" + strings.Join(alt.Cond, ",") + "}"
			}
			r.Check(hasFull, rule, FuncName(rt.In), key, posf(c, rt.Call), "behind the access middleware with RequireFullAuth", "the route changes the account's second factor but the access middleware in front of it is not given RequireFullAuth ("+alt.String()+"): a half-authenticated (remember-me) session is admitted")
		}
	}
	r.Check(n >= 6, rule, "ab/otp", "second-factor routes", "-", sprintf("%d routes that can change a second factor", n), sprintf("expected at least 6 routes that can change a second factor, found %d", n))
}

// delAllQueued: the delete-all of logout is an event like any other: it is
// queued on every path (whatever the whitelist).
func (c *Ctx) delAllQueued(rule string) {
	fn := c.P.Func(fnDelAllSession)
	ok, p := c.mustQueue(fn, nil, 0, map[*ssa.Function]bool{})
	if ok {
		c.R.Ok(rule, FuncName(fn), "queues its event on every path", c.P.Pos(fn.Pos()), "no returning path skips the queue")
	} else {
		c.R.Bad(rule, FuncName(fn), "queues its event on every path", c.P.Pos(fn.Pos()), "DelAllSession can return without having queued the delete-all (for instance for an empty whitelist, the default): logout then removes only the keys it names one by one", c.P.DescribePath(p)...)
	}
}

// isCryptoRandReader: v is crypto/rand.Reader, or a package-level reader
// variable of the repository that is initialised with it (an injectable
// entropy source).
func (c *Ctx) isCryptoRandReader(v ssa.Value) bool {
	strip := func(v ssa.Value) ssa.Value {
		for {
			if mi, ok := v.(*ssa.MakeInterface); ok {
				v = mi.X
				continue
			}
			if ci, ok := v.(*ssa.ChangeInterface); ok {
				v = ci.X
				continue
			}
			return v
		}
	}
	g := loadOfGlobal(strip(v))
	if g == nil || g.Pkg == nil {
		return false
	}
	if c.P.ByPath[g.Pkg.Pkg.Path()] != nil {
		if ig := loadOfGlobal(strip(GlobalInit(g))); ig != nil {
			g = ig
		}
	}
	return g.Pkg != nil && g.Pkg.Pkg.Path() == "crypto/rand" && g.Name() == "Reader"
}

// secretEntropy: every secret the library mints (confirm/recover tokens,
// remember tokens, one-time passwords, recovery codes, SMS codes, e-mail
// authorisation tokens, the OAuth2 state) is drawn from crypto/rand, with the
// read checked: each io.ReadFull / Read that fills a buffer in a package that
// mints secrets names crypto/rand.Reader, its error is handed back (a short
// or failed read must not leave a predictable buffer in use), and math/rand is
// used nowhere but for the MIME boundary of the SMTP mailer.
func (c *Ctx) secretEntropy(rule string) {
	r := c.R
	n := 0
	for _, fn := range c.P.Funcs {
		if strings.HasSuffix(pkgOf(fn), "/mocks") {
			continue
		}
		name := FuncName(fn)
		for _, call := range Calls(fn) {
			cn := Callee(call)
			// an encoder that writes more bytes than it reads must not write into
			// the storage it is still reading: the output overwrites input not yet
			// consumed and the result depends on a fraction of the secret only
			if cn == "(*encoding/base64.Encoding).Encode" || cn == "encoding/hex.Encode" {
				di, si := 1, 2
				if cn == "encoding/hex.Encode" {
					di, si = 0, 1
				}
				if d, sr := entropyBufRoot(Arg(call, di)), entropyBufRoot(Arg(call, si)); d != nil && d == sr && !disjointRegions(Arg(call, di), Arg(call, si), d) {
					r.Bad(rule, name, "encode in place", posf(c, call), "the value is encoded into the buffer it is read from ("+SafeString(d)+"): the encoder overwrites bytes it has not read yet, so the encoded secret depends on only part of the random bytes")
				}
				continue
			}
			if strings.HasPrefix(cn, "math/rand.") || strings.HasPrefix(cn, "(*math/rand.Rand).") || strings.HasPrefix(cn, "math/rand/v2.") {
				// (the mailer's own file: a boundary helper the Send method calls counts)
				ok := pkgOf(fn) == "ab/defaults" && (strings.Contains(name, "SMTPMailer") || strings.Contains(posf(c, call), "defaults/smtp_mailer.go:"))
				r.Check(ok, rule, name, cn, posf(c, call), "math/rand only for the MIME boundary", "math/rand is used outside the SMTP mailer's MIME boundary: values drawn from it are predictable and must not become tokens, codes or nonces")
				continue
			}
			var reader ssa.Value
			switch {
			case cn == "io.ReadFull" || cn == "io.ReadAtLeast":
				reader = Arg(call, 0)
			case cn == "crypto/rand.Read":
				n++
				k, _ := c.errHandling(call)
				okE := k == "returned"
				if k == "tested" {
					okE, _ = c.errPropagated(call)
				}
				r.Check(okE, rule, name, "rand.Read.err", posf(c, call), "a failed read ends the operation", "the error of the entropy read is not handed back: a buffer that was not filled would be used as a secret")
				continue
			case call.Common().IsInvoke() && call.Common().Method.Name() == "Read" && strings.HasSuffix(call.Common().Value.Type().String(), "io.Reader"):
				reader = call.Common().Value
			default:
				continue
			}
			for {
				if mi, ok := reader.(*ssa.MakeInterface); ok {
					reader = mi.X
					continue
				}
				if ci, ok := reader.(*ssa.ChangeInterface); ok {
					reader = ci.X
					continue
				}
				break
			}
			g := loadOfGlobal(reader)
			if g != nil && g.Pkg != nil && c.P.ByPath[g.Pkg.Pkg.Path()] != nil {
				// an injectable source: a package-level reader of the repository that is
				// initialised with crypto/rand.Reader
				iv := GlobalInit(g)
				for {
					if mi, ok := iv.(*ssa.MakeInterface); ok {
						iv = mi.X
						continue
					}
					if ci, ok := iv.(*ssa.ChangeInterface); ok {
						iv = ci.X
						continue
					}
					break
				}
				if ig := loadOfGlobal(iv); ig != nil {
					g = ig
				}
			}
			if g == nil || g.Pkg == nil {
				continue // reading a body, a file: not an entropy source
			}
			if g.Pkg.Pkg.Path() != "crypto/rand" && !strings.Contains(g.Pkg.Pkg.Path(), "/rand") {
				continue
			}
			n++
			r.Check(g.Pkg.Pkg.Path() == "crypto/rand" && g.Name() == "Reader", rule, name, "entropy source", posf(c, call), "crypto/rand.Reader", "the secret is not drawn from crypto/rand.Reader but from "+g.Pkg.Pkg.Path()+"."+g.Name())
			if strings.HasPrefix(cn, "io.Read") {
				// the bytes are drawn into storage this call allocated: a buffer that
				// outlives the call (package variable, field, pool) hands the bytes of
				// one secret out again as part of another unless its bookkeeping is
				// exactly right, which is arithmetic this rule cannot see
				switch root := entropyBufRoot(Arg(call, 1)).(type) {
				case *ssa.Alloc, *ssa.MakeSlice, *ssa.Parameter:
					r.Ok(rule, name, "entropy buffer", posf(c, call), "drawn into a buffer of this call")
				default:
					r.Bad(rule, name, "entropy buffer", posf(c, call), "the entropy is read into storage that outlives the call ("+SafeString(root)+"): the same random bytes can become part of more than one secret")
				}
				k, _ := c.errHandling(call)
				okE := k == "returned"
				why := "error is " + k
				if k == "tested" {
					okE, why = c.errPropagated(call)
				}
				r.Check(okE, rule, name, "ReadFull.err", posf(c, call), "a failed read ends the operation", "the error of the entropy read is not handed back ("+why+"): a buffer that was not (completely) filled would be used as a secret")
			} else {
				r.Bad(rule, name, "Reader.Read", posf(c, call), "the buffer is filled with a bare Read, which may return fewer bytes than asked for: use io.ReadFull")
			}
		}
	}
	r.Check(n >= 4, rule, "all packages", "entropy reads", "-", sprintf("%d reads of crypto/rand", n), sprintf("expected at least 4 reads of crypto/rand in the packages that mint secrets, found %d", n))
}

// utcInstants: every instant the library stores in a user record (lock time,
// last attempt, recovery expiry) is taken in UTC: the argument of a Put* of a
// time.Time on a user derives from time.Now() only through .UTC(). All the
// library's own sites agree on this; a site that stores time.Now() with the
// server's zone is shifted by the zone offset in every store that keeps the
// wall-clock reading without a zone — links and locks then live hours longer
// (or shorter) than configured.
func (c *Ctx) utcInstants(rule string) {
	r := c.R
	n := 0
	for _, fn := range c.P.Funcs {
		if strings.HasSuffix(pkgOf(fn), "/mocks") {
			continue
		}
		for _, call := range Calls(fn) {
			cc := call.Common()
			if !cc.IsInvoke() || !strings.HasPrefix(cc.Method.Name(), "Put") || len(cc.Args) != 1 || cc.Args[0].Type().String() != "time.Time" || !c.isUserType(cc.Value.Type()) {
				continue
			}
			// walk back through instant arithmetic to where the instant comes from
			v := cc.Args[0]
			bad := ""
			seen := map[ssa.Value]bool{}
			var walk func(v ssa.Value, d int)
			walk = func(v ssa.Value, d int) {
				if d > 8 || seen[v] {
					return
				}
				seen[v] = true
				if phi, ok := v.(*ssa.Phi); ok {
					for _, e := range phi.Edges {
						walk(e, d+1)
					}
					return
				}
				ic, _ := CallOf(v)
				if ic == nil {
					return
				}
				switch Callee(ic) {
				case "(time.Time).Add", "(time.Time).AddDate", "(time.Time).Truncate", "(time.Time).Round":
					walk(Arg(ic, 0), d+1)
				case "(time.Time).UTC":
					// fine, whatever is below
				case "time.Now":
					bad = "time.Now() without .UTC()"
				case "(time.Time).Local", "(time.Time).In":
					bad = Callee(ic)
				default:
					// a clock reached through a package-level variable that is not
					// time.Now itself (`var now = time.Now().UTC` is a method value bound
					// to the instant the package was initialised: a clock that stands still)
					if strings.HasPrefix(Callee(ic), "var:") {
						bad = "read from the package-level variable " + strings.TrimPrefix(Callee(ic), "var:") + ", which is not initialised with time.Now itself (a bound method value such as time.Now().UTC is evaluated once, at start-up)"
					}
				}
			}
			walk(v, 0)
			n++
			r.Check(bad == "", rule, FuncName(fn), cc.Method.Name()+"(instant)", posf(c, call), "stored in UTC", "the instant stored is "+bad+": it carries the server's zone, and a store that keeps the wall-clock reading without a zone shifts it by the zone offset")
		}
	}
	r.Check(n >= 6, rule, "all packages", "stored instants", "-", sprintf("%d", n), sprintf("expected at least 6 stores of an instant in a user record, found %d", n))
}

// withExplanation runs a property's whole rule set as part of another
// property without letting it replace that property's own description.
func withExplanation(f func(*Ctx)) func(*Ctx) {
	return func(c *Ctx) {
		e, nd := c.R.Explanation, c.R.NotDecided
		f(c)
		c.R.Explanation, c.R.NotDecided = e, nd
	}
}

// ctxParentIsRequest: a context that a handler installs on the request is
// built on the request's own context. A handler that starts from
// context.Background()/TODO() drops everything the middlewares in front of it
// put there (layout data, the loaded client state, a request-scoped logger):
// what is then rendered or logged depends on whether that handler ran, i.e. on
// which branch of the flow the request took.
func (c *Ctx) ctxParentIsRequest(rule string) {
	r := c.R
	n := 0
	for _, fn := range c.P.Funcs {
		if strings.HasSuffix(pkgOf(fn), "/mocks") {
			continue
		}
		for _, call := range CallsTo(fn, "context.WithValue") {
			// only contexts that end up on a request
			onReq := false
			if v := call.Value(); v != nil && v.Referrers() != nil {
				for _, ref := range *v.Referrers() {
					if rc, ok := ref.(ssa.CallInstruction); ok && Callee(rc) == "(*net/http.Request).WithContext" {
						onReq = true
					}
				}
			}
			if !onReq {
				continue
			}
			n++
			parent := Arg(call, 0)
			okP := false
			for d := 0; d < 6; d++ {
				pc, _ := CallOf(parent)
				if pc == nil {
					break
				}
				switch Callee(pc) {
				case "(*net/http.Request).Context":
					okP = true
				case "context.WithValue", "context.WithCancel", "context.WithTimeout", "context.WithDeadline":
					parent = Arg(pc, 0)
					continue
				}
				break
			}
			if _, isParam := parent.(*ssa.Parameter); isParam {
				okP = true // handed in by the caller
			}
			r.Check(okP, rule, FuncName(fn), "context.WithValue(parent, …)", posf(c, call), "parent is the request's context", "the context installed on the request is not derived from the request's own context ("+SafeString(Arg(call, 0))+"): everything earlier middlewares stored in it is lost for the rest of the request, on this branch only")
		}
	}
	r.Check(n >= 10, rule, "all packages", "request contexts", "-", sprintf("%d", n), sprintf("expected at least 10 contexts installed on requests, found %d", n))
}

// beforeHandledHonoured: the "handled" answer of every FireBefore is looked
// at. A Before handler that has answered the request (a veto, an application
// hook that took the request over) ends it; a handler that goes on regardless
// answers twice, and only for the accounts for which the hook fired.
func (c *Ctx) beforeHandledHonoured(rule string) {
	r := c.R
	n := 0
	for _, fn := range c.P.Funcs {
		if strings.HasSuffix(pkgOf(fn), "/mocks") || pkgOf(fn) == "ab" {
			continue
		}
		for _, f := range Fires(fn) {
			if !f.Before {
				continue
			}
			n++
			used := false
			if f.Handled != nil && f.Handled.Referrers() != nil {
				for _, ref := range *f.Handled.Referrers() {
					switch ref.(type) {
					case *ssa.If, *ssa.Phi, *ssa.Return, *ssa.BinOp, *ssa.UnOp:
						used = true
					}
				}
			}
			r.Check(used, rule, FuncName(fn), "FireBefore("+c.EventName(f.Event)+").handled", posf(c, f.Call), "looked at", "the handled result of the Before event is dropped: a handler that already answered the request does not end it")
			// … and it ends the request at once: with handled==true (and no error) no
			// further event is fired and nothing is written — a second set of handlers
			// answering a request that was already answered (the 2FA hand-over after
			// lock's refusal) tells the two outcomes apart
			if used && f.Handled != nil {
				self := f.Call.(ssa.Instruction)
				assume := map[ssa.Value]bool{f.Handled: true}
				nonNil := map[ssa.Value]bool{}
				q := PathQuery{From: self, Assume: assume, NonNil: nonNil, Prune: func(a, b *ssa.BasicBlock) bool {
					ef, ok := EdgeFact(a, b)
					return ok && f.Err != nil && ef.SaysNotNil(f.Err)
				}, Goal: func(i ssa.Instruction) bool {
					if i == self {
						return false
					}
					if call, ok := i.(ssa.CallInstruction); ok {
						if _, isF := fireOf(call); isF {
							return true
						}
					}
					return c.clientVisible(i)
				}}
				if p := q.Find(); p != nil {
					r.Bad(rule, FuncName(fn), "FireBefore("+c.EventName(f.Event)+") handled ⇒ stop", posf(c, p[len(p)-1]), "after a Before handler reported the request handled the function goes on to fire another event or to write to the client: handlers registered for what follows (the second-factor hand-over, the after-login bookkeeping) act on a request that was already answered", c.P.DescribePath(p)...)
				} else {
					r.Ok(rule, FuncName(fn), "FireBefore("+c.EventName(f.Event)+") handled ⇒ stop", posf(c, f.Call), "nothing is fired or written once a handler answered")
				}
			}
		}
	}
	r.Check(n >= 10, rule, "all packages", "FireBefore sites", "-", sprintf("%d", n), sprintf("expected at least 10 FireBefore sites, found %d", n))
}

// afterHandlersUnconditional: the bookkeeping the library hangs on After
// events (reset the failure count, stamp the idle clock, revoke remember
// tokens, issue the remember cookie, start a confirmation) happens whether or
// not an earlier handler already answered the request: none of the library's
// After handlers reads the incoming `handled` flag. (Before handlers of the
// hijack kind do: a login that was already taken over is not taken over again.)
func (c *Ctx) afterHandlersUnconditional(rule string) {
	r := c.R
	n := 0
	seen := map[*ssa.Function]bool{}
	for _, w := range c.wiring {
		if w.Before || w.Handler == nil || seen[w.Handler] || strings.HasSuffix(pkgOf(w.In), "/mocks") || !c.inRepo(w.Handler) {
			continue
		}
		seen[w.Handler] = true
		h := w.Handler
		if len(h.Params) == 0 {
			continue
		}
		hp := h.Params[len(h.Params)-1]
		if !isBoolType(hp.Type()) {
			continue
		}
		n++
		used := hp.Referrers() != nil && len(*hp.Referrers()) > 0
		r.Check(!used, rule, FuncName(h), "After("+c.EventName(w.Event)+") handler ignores handled", c.P.Pos(h.Pos()), "bookkeeping does not depend on whether an earlier handler answered", "the After handler looks at the incoming handled flag: when an earlier handler (an application hook) has answered the request, the library's bookkeeping for this event is skipped")
	}
	r.Check(n >= 4, rule, "all packages", "After handlers", "-", sprintf("%d", n), sprintf("expected at least 4 library After handlers, found %d", n))
}

// supersededOnEveryRequest: a recovery request for an existing account always
// issues: from the successful look-up, every completing path stores a fresh
// selector (no "one was sent a moment ago" shortcut keeps the older token alive).
func (c *Ctx) supersededOnEveryRequest(rule string) {
	r := c.R
	fn := c.P.FuncOpt("(*ab/recover.Recover).StartPost")
	if fn == nil {
		return
	}
	for _, lk := range CallsTo(fn, fnLoad) {
		e := ErrResult(lk)
		if e == nil {
			continue
		}
		isPut := func(i ssa.Instruction) bool {
			call, ok := i.(ssa.CallInstruction)
			return ok && call.Common().IsInvoke() && call.Common().Method.Name() == "PutRecoverSelector"
		}
		q := PathQuery{From: lk.(ssa.Instruction), Cut: isPut, GoalP: c.nonErrorReturn, Prune: func(a, b *ssa.BasicBlock) bool {
			f, ok := EdgeFact(a, b)
			if !ok {
				return false
			}
			rel := f.Rel()
			// a Before handler took the request over
			for _, fr := range Fires(fn) {
				if fr.Before && fr.Handled != nil && f.SaysBool(fr.Handled, true) {
					return true
				}
			}
			// the look-up's error, or that error with the not-found sentinel put in
			// its place where the storer answered (nil, nil)
			var sameErr func(v ssa.Value, d int) bool
			sameErr = func(v ssa.Value, d int) bool {
				if v == e {
					return true
				}
				ph, ok := v.(*ssa.Phi)
				if !ok || d > 3 {
					return false
				}
				for _, x := range ph.Edges {
					if g := loadOfGlobal(x); g != nil && g.Name() == "ErrUserNotFound" {
						continue
					}
					if !sameErr(x, d+1) {
						return false
					}
				}
				return true
			}
			if !sameErr(rel.X, 0) {
				return false
			}
			// the look-up failed: unknown account (answered with the same success) or an error
			return (rel.Op == token.NEQ && IsNilConst(rel.Y)) || (rel.Op == token.EQL && loadOfGlobal(rel.Y) != nil)
		}}
		if p := q.Find(); p != nil {
			r.Bad(rule, FuncName(fn), "found ⇒ PutRecoverSelector(fresh)", posf(c, p[len(p)-1]), "a recovery request for an existing account can complete without issuing a new token: the older link is not superseded and stays valid for its whole period", c.P.DescribePath(p)...)
		} else {
			r.Ok(rule, FuncName(fn), "found ⇒ PutRecoverSelector(fresh)", posf(c, lk), "every completing path issues a new token")
		}
	}
}

// followRedirSites: which responses honour the client's return-target
// parameter. The guard in front of it is known to be weak (C15 findings), so
// the set of sites that set FollowRedirParam is part of the exposure: the
// completions of an interactive login, and nothing else. A site added to it
// (the OAuth2 callback, a recovery start, a logout) hands the client a new
// place to plant a target.
func (c *Ctx) followRedirSites(rule string) {
	r := c.R
	allowed := map[string]bool{
		"(*ab/auth.Auth).LoginPost": true, "(*ab/otp.OTP).LoginPost": true,
		"(*ab/otp/twofactor/totp2fa.TOTP).PostValidate":        true,
		"(*ab/otp/twofactor/sms2fa.SMSValidator).validateCode": true,
	}
	n := 0
	for _, fn := range c.P.Funcs {
		if strings.HasSuffix(pkgOf(fn), "/mocks") {
			continue
		}
		for _, call := range CallsTo(fn, fnRedirect) {
			vals, ok := redirectOptField(Arg(call, 2), "FollowRedirParam")
			if !ok {
				continue
			}
			follows := false
			for _, v := range vals {
				if b, isC := ConstBool(v); !isC || b {
					follows = true
				}
			}
			if !follows {
				continue
			}
			n++
			// a login completion: the function issues the session
			issues := false
			for _, op := range c.StateOps(fn) {
				if op.Op == "put" && op.Store == "session" && op.Const && op.Key == c.P.ConstString("", "SessionKey") {
					issues = true
				}
			}
			okSite := allowed[FuncName(fn)] || (issues && len(CallsTo(fn, fnFireBefore)) > 0 && pkgOf(fn) != "ab/oauth2" && pkgOf(fn) != "ab/recover" && pkgOf(fn) != "ab/register")
			r.Check(okSite, rule, FuncName(fn), "FollowRedirParam", posf(c, call), "an interactive login completion", "this response honours the client-supplied return target (FollowRedirParam) although it is not one of the interactive login completions: the parameter is guarded only by the redirector's weak check, so every new site that follows it is a new way off-site")
		}
	}
	r.Check(n >= 3, rule, "all packages", "sites following the return target", "-", sprintf("%d", n), sprintf("expected at least 3, found %d", n))
}

// refusalConfigMapped: every module that protects its routes with the
// authentication middleware passes, as the refusal mode, what the
// configuration says: Modules.ResponseOnUnauthed when it is set, otherwise a
// redirect when Modules.RoutesRedirectOnUnauthed is set, otherwise the zero
// mode (404). "The response is exactly the configured refusal" starts here.
func (c *Ctx) refusalConfigMapped(rule string) {
	r := c.R
	redirect := c.P.ConstInt("", "RespondRedirect")
	n := 0
	for _, fn := range c.P.Funcs {
		if pkgOf(fn) == "ab" || strings.HasSuffix(pkgOf(fn), "/mocks") {
			continue
		}
		for _, call := range CallsTo(fn, "ab.MountedMiddleware2", "ab.Middleware2") {
			idx := 3
			if Callee(call) == "ab.Middleware2" {
				idx = 2
			}
			a := Arg(call, idx)
			phi, isPhi := a.(*ssa.Phi)
			if !isPhi {
				continue // a fixed mode chosen by the module
			}
			n++
			name := FuncName(fn)
			pos := posf(c, call)
			ok := true
			why := ""
			seenCfg, seenRedir, seenZero := false, false, false
			// the leaves of the (possibly nested) choice, each with the facts of the
			// edges it arrives over; a fact "choice == constant" about an inner choice
			// between constants stands for the facts of the one edge that delivers it
			var leaf func(e ssa.Value, fs []Fact, depth int)
			leaf = func(e ssa.Value, fs []Fact, depth int) {
				if p, isP := e.(*ssa.Phi); isP && depth < 4 {
					for i, pe := range p.Edges {
						leaf(pe, append(append([]Fact{}, fs...), FactsAtEdge(p.Block().Preds[i], p.Block())...), depth+1)
					}
					return
				}
				for _, f := range append([]Fact{}, fs...) {
					rel := f.Rel()
					ip, isP := rel.X.(*ssa.Phi)
					k, isC := ConstInt(rel.Y)
					if !isP || !isC || (rel.Op != token.EQL && rel.Op != token.NEQ) {
						continue
					}
					at := -1
					cnt := 0
					for i, pe := range ip.Edges {
						ek, ec := ConstInt(pe)
						if !ec {
							cnt = 99
							break
						}
						if (ek == k) == (rel.Op == token.EQL) {
							at = i
							cnt++
						}
					}
					if cnt == 1 {
						fs = append(fs, FactsAtEdge(ip.Block().Preds[at], ip.Block())...)
					}
				}
				cfgSet := HasFact(fs, func(f Fact) bool {
					rel := f.Rel()
					k, isC := ConstInt(rel.Y)
					return rel.Op == token.NEQ && isC && k == 0 && fieldLoadName(rel.X) == "ResponseOnUnauthed"
				})
				cfgUnset := HasFact(fs, func(f Fact) bool {
					rel := f.Rel()
					k, isC := ConstInt(rel.Y)
					return rel.Op == token.EQL && isC && k == 0 && fieldLoadName(rel.X) == "ResponseOnUnauthed"
				})
				redirOn := HasFact(fs, func(f Fact) bool {
					rel := f.Rel()
					return rel.B != nil && rel.Pol && fieldLoadName(rel.B) == "RoutesRedirectOnUnauthed"
				})
				redirOff := HasFact(fs, func(f Fact) bool {
					rel := f.Rel()
					return rel.B != nil && !rel.Pol && fieldLoadName(rel.B) == "RoutesRedirectOnUnauthed"
				})
				// an arrival whose facts contradict each other is no arrival
				if cfgSet && cfgUnset || redirOn && redirOff {
					return
				}
				switch {
				case fieldLoadName(e) == "ResponseOnUnauthed":
					seenCfg = true
					if !cfgSet {
						ok, why = false, "the configured mode is used on an edge where ResponseOnUnauthed != 0 is not established"
					}
				default:
					k, isC := ConstInt(e)
					switch {
					case isC && k == redirect:
						seenRedir = true
						if !(cfgUnset && redirOn) {
							ok, why = false, "RespondRedirect is chosen without ResponseOnUnauthed == 0 && RoutesRedirectOnUnauthed"
						}
					case isC && k == 0:
						seenZero = true
						if !(cfgUnset && redirOff) {
							ok, why = false, "the default mode is chosen although a refusal mode is configured"
						}
					default:
						ok, why = false, "unexpected refusal mode "+SafeString(e)
					}
				}
			}
			leaf(phi, nil, 0)
			if ok && !(seenCfg && seenRedir && seenZero) {
				ok, why = false, "not all three configuration cases are distinguished"
			}
			r.Check(ok, rule, name, Callee(call)+"(…, refusal mode)", pos, "ResponseOnUnauthed, else redirect if RoutesRedirectOnUnauthed, else default", "the refusal mode handed to the authentication middleware does not follow the configuration ("+why+"): protected routes of this module refuse with a different response than the configured one")
		}
	}
	if n < 3 {
		r.Unknown(rule, "", "census", "-", sprintf("only %d modules derive the refusal mode from the configuration (confirmed by hand: 6)", n))
	}
}

// oauthRememberLiteral: the OAuth2 callback turns the pass-along parameter
// rm into a remember-me wish only for the literal value "true".
func (c *Ctx) oauthRememberLiteral(rule string) {
	r := c.R
	end := c.P.FuncOpt("(*ab/oauth2.OAuth2).End")
	if end == nil {
		return
	}
	n := 0
	for _, call := range CallsTo(end, fnWithValue) {
		if k, isC := ConstStr(stripMI(Arg(call, 1))); !isC || k != "values" {
			continue
		}
		n++
		ok := HoldsAt(call.(ssa.Instruction), func(f Fact) bool {
			rel := f.Rel()
			s, isC := ConstStr(rel.Y)
			return rel.Op == token.EQL && isC && s == "true"
		})
		r.Check(ok, rule, FuncName(end), "ctx[values]=RMTrue only for rm == \"true\"", posf(c, call), "the wish is taken from the literal value", "the callback marks the request as wanting to be remembered without the pass-along value being \"true\": a remember cookie is issued that nobody asked for")
	}
	if n == 0 {
		r.Info(rule, FuncName(end), "ctx[values]", "-", "the callback does not carry a remember-me wish")
	}
}

// recoverStartQuiet: EventRecoverStart fires only when the account exists.
// A library handler on it that answers the request (or reports it handled)
// makes the response to a recovery request depend on the account's existence.
func (c *Ctx) recoverStartQuiet(rule string) {
	r := c.R
	ev := c.Event("EventRecoverStart")
	n := 0
	for _, w := range c.wiring {
		if !w.Const || w.Event != ev {
			continue
		}
		n++
		phase := map[bool]string{true: "Before", false: "After"}[w.Before]
		construct := phase + "(EventRecoverStart)->" + w.Name
		pos := posf(c, w.Call)
		if w.Handler == nil {
			r.Unknown(rule, FuncName(w.In), construct, pos, "handler body not resolved")
			continue
		}
		var bad ssa.Instruction
		why := ""
		seen := map[*ssa.Function]bool{}
		var walk func(f *ssa.Function, d int)
		walk = func(f *ssa.Function, d int) {
			if f == nil || seen[f] || d > 4 || bad != nil {
				return
			}
			seen[f] = true
			for _, b := range f.Blocks {
				for _, in := range b.Instrs {
					if bad != nil {
						return
					}
					if c.clientVisible(in) {
						bad, why = in, "answers the request or changes client state"
						return
					}
					if call, ok := in.(ssa.CallInstruction); ok {
						if g := StaticCallee(call); g != nil && c.inRepo(g) {
							walk(g, d+1)
						}
					}
					if ret, ok := in.(*ssa.Return); ok && f == w.Handler && len(ret.Results) == 2 {
						v := ret.Results[0]
						if b, isC := ConstBool(v); isC && !b {
							continue
						}
						if p, isP := v.(*ssa.Parameter); isP && p.Name() == "handled" {
							continue
						}
						bad, why = in, "can report the request handled"
					}
				}
			}
		}
		walk(w.Handler, 0)
		if bad != nil {
			r.Bad(rule, FuncName(w.In), construct, pos, "a handler registered on the event that fires only for existing accounts "+why+" ("+posf(c, bad)+"): the response to a recovery request tells whether the account exists")
		} else {
			r.Ok(rule, FuncName(w.In), construct, pos, "handler neither answers the request nor touches client state")
		}
	}
	if n == 0 {
		r.Ok(rule, "ab", "handlers of EventRecoverStart", "-", "no library handler is registered on the event that fires only for existing accounts")
	}
}

// registryStable: the handler registry of an instance is created once, by the
// constructor, and afterwards only grows (Before/After append). A later
// replacement of Authboss.Events, or of the maps inside it, silently drops the
// vetoes, hijacks and revocation hooks the modules registered.
func (c *Ctx) registryStable(rule string) {
	r := c.R
	n := 0
	fresh := func(v ssa.Value) bool {
		for d := 0; d < 6; d++ {
			switch x := v.(type) {
			case *ssa.FieldAddr:
				v = x.X
				continue
			case *ssa.Alloc:
				return true
			case *ssa.Phi:
				return false
			}
			break
		}
		return false
	}
	for _, fn := range c.P.Funcs {
		if !c.inRepo(fn) {
			continue
		}
		for _, b := range fn.Blocks {
			for _, in := range b.Instrs {
				// entries of the handler maps: appended to, never replaced or deleted
				regMap := func(v ssa.Value) bool {
					u, ok := v.(*ssa.UnOp)
					if !ok {
						return false
					}
					fa, ok := u.X.(*ssa.FieldAddr)
					return ok && strings.HasSuffix(fa.X.Type().String(), "v3.Events") && (fieldName(fa) == "before" || fieldName(fa) == "after")
				}
				if mu, ok := in.(*ssa.MapUpdate); ok && regMap(mu.Map) {
					n++
					okApp := false
					if ac, _ := CallOf(mu.Value); ac != nil {
						if bi, isB := ac.Common().Value.(*ssa.Builtin); isB && bi.Name() == "append" {
							var old func(v ssa.Value, d int) bool
							old = func(v ssa.Value, d int) bool {
								switch x := v.(type) {
								case *ssa.Lookup:
									return regMap(x.X)
								case *ssa.Extract:
									return d < 4 && old(x.Tuple, d+1)
								case *ssa.Phi:
									for _, e := range x.Edges {
										if d > 4 || !old(e, d+1) {
											return false
										}
									}
									return len(x.Edges) > 0
								}
								return false
							}
							okApp = old(Arg(ac, 0), 0)
						}
					}
					r.Check(okApp, rule, FuncName(fn), "handler list update", posf(c, mu), "the event's handler list is its old value with the new handler appended", "an event's handler list is overwritten with something other than append(<its old value>, …): handlers registered earlier are dropped")
					continue
				}
				if call, ok := in.(ssa.CallInstruction); ok {
					if bi, isB := call.Common().Value.(*ssa.Builtin); isB && (bi.Name() == "delete" || bi.Name() == "clear") && len(call.Common().Args) > 0 && regMap(call.Common().Args[0]) {
						n++
						r.Bad(rule, FuncName(fn), "handler list removal", posf(c, call), "registered handlers of an event are removed from the registry")
					}
					continue
				}
				st, ok := in.(*ssa.Store)
				if !ok {
					continue
				}
				fa, ok := st.Addr.(*ssa.FieldAddr)
				if !ok {
					continue
				}
				owner := fa.X.Type().String()
				fname := fieldName(fa)
				isReg := (strings.HasSuffix(owner, "v3.Authboss") && fname == "Events") ||
					(strings.HasSuffix(owner, "v3.Events") && (fname == "before" || fname == "after"))
				if !isReg {
					continue
				}
				n++
				name := FuncName(fn)
				if fresh(fa.X) {
					r.Ok(rule, name, "store "+fname, posf(c, st), "initialises a freshly allocated object")
					continue
				}
				// growing the registry: the value stored derives from the old one (append / map with the old entries)
				grows := false
				if fname != "Events" {
					grows = HasOrigin(c.rawOrigins(st.Val), func(o Origin) bool { return o.Kind == "field" && strings.HasSuffix(o.Name, fname) })
				}
				// ... or the registry is known to be empty (nil) at this point: a
				// zero-value Events allocating its map on first use drops nothing
				if !grows {
					grows = HasFact(FactsAtInstr(st), func(f Fact) bool {
						rel := f.Rel()
						if rel.Op != token.EQL || !IsNilConst(rel.Y) {
							return false
						}
						u, ok := rel.X.(*ssa.UnOp)
						if !ok || u.Op != token.MUL {
							return false
						}
						fa2, ok := u.X.(*ssa.FieldAddr)
						return ok && fa2.X == fa.X && fieldName(fa2) == fname
					})
				}
				r.Check(grows, rule, name, "store "+fname, posf(c, st), "the registry only grows", "the event registry of a live instance is replaced ("+fname+" = "+SafeString(st.Val)+"): handlers the modules registered earlier — lock and confirm vetoes, the 2FA hijack, remember-token revocation — are silently dropped while their routes stay mounted")
			}
		}
	}
	if n == 0 {
		r.Unknown(rule, "ab", "registry initialisation", "-", "no initialisation of Authboss.Events found")
	}
}

// flushSites: the queued client-state changes are released by the response
// writer's own methods only — when a handler writes. A flush anywhere else
// (after the handler returned, in a middleware) also releases what a request
// queued before it failed: with the silent default error handler a failed
// login would still deliver its session.
func (c *Ctx) flushSites(rule string) {
	r := c.R
	put := c.flushFunc()
	n := 0
	for _, call := range c.Callers(put) {
		n++
		fn := call.Parent()
		okRecv := false
		if fn.Signature.Recv() != nil {
			okRecv = strings.HasSuffix(strings.TrimPrefix(fn.Signature.Recv().Type().String(), "*"), "ClientStateResponseWriter")
		}
		r.Check(okRecv, rule, FuncName(fn), "putClientState() site", posf(c, call), "flushed by a method of the response writer (a write by the handler)", "the queued session/cookie changes are flushed outside the response writer's own methods: a request that failed without writing anything (the default error handler writes nothing) still delivers what it queued before the failure, e.g. the logged-in session of a login whose storage write failed")
	}
	if n == 0 {
		r.Unknown(rule, FuncName(put), "flush sites", "-", "no call of the flush found")
	}
}

// errorPathsPutNothing: a request that is about to end with a backend's error
// does not write session or cookie values on the way out: what a failed step
// leaves in the session must not be more than what it found (an error handler
// that writes a 500 flushes it to the client).
func (c *Ctx) errorPathsPutNothing(rule string) {
	r := c.R
	n := 0
	for _, fn := range c.P.Funcs {
		if !c.inRepo(fn) || strings.HasSuffix(pkgOf(fn), "/mocks") {
			continue
		}
		for _, op := range c.StateOps(fn) {
			if op.Op != "put" {
				continue
			}
			at := op.Call.(ssa.Instruction)
			var errs []ssa.Value
			for _, f := range FactsAtInstr(at) {
				rel := f.Rel()
				if rel.Op == token.NEQ && IsNilConst(rel.Y) && rel.X != nil && IsErrorType(rel.X.Type()) {
					if call, _ := CallOf(rel.X); call != nil {
						errs = append(errs, rel.X)
					}
				}
			}
			if len(errs) == 0 {
				continue
			}
			n++
			bad := false
			for _, b := range fn.Blocks {
				for _, in := range b.Instrs {
					ret, ok := in.(*ssa.Return)
					if !ok || len(ret.Results) == 0 || !Reaches(at, ret) {
						continue
					}
					last := ret.Results[len(ret.Results)-1]
					for _, e := range errs {
						if carriesErr(e, last, 0) {
							bad = true
						}
					}
				}
			}
			r.Check(!bad, rule, FuncName(fn), "Put"+strings.Title(op.Store)+"("+op.Key+") on an error path", posf(c, op.Call), "the failing path hands the error back without having written state", "a path that ends the request with a backend's error first writes "+op.Store+"["+op.Key+"]: the failed request changes the client's state (restores a dropped code, marks a step done) although the operation did not happen")
		}
	}
	r.Extra["puts_under_error_facts"] = n
}

// storeBeforeSession: a handler writes the login into the session only after
// the storage writes of the same function have succeeded. A storer write that
// follows PutSession(uid) can still fail, and the request then ends with an
// error while the session it queued says "logged in" (an error handler that
// writes a 500 delivers it).
func (c *Ctx) storeBeforeSession(rule string) {
	r := c.R
	uid := c.P.ConstString("", "SessionKey")
	backend := func(call ssa.CallInstruction) bool {
		n := Callee(call)
		if _, ok := storerWrites[n]; ok {
			return true
		}
		switch n {
		case fnAddRemember, fnDelRemember, fnUseRemember:
			return true
		}
		return false
	}
	n := 0
	for _, fn := range c.P.Funcs {
		if !c.inRepo(fn) || strings.HasSuffix(pkgOf(fn), "/mocks") {
			continue
		}
		for _, op := range c.StateOps(fn) {
			if op.Op != "put" || op.Store != "session" || !op.Const || op.Key != uid {
				continue
			}
			n++
			var late ssa.CallInstruction
			for _, call := range Calls(fn) {
				if backend(call) && Reaches(op.Call.(ssa.Instruction), call.(ssa.Instruction)) {
					late = call
				}
			}
			if late != nil {
				r.Bad(rule, FuncName(fn), "PutSession("+uid+") after the storage writes", posf(c, op.Call), "the session is given the user's identity before "+Callee(late)+" ("+posf(c, late)+") has succeeded: if that write fails the request ends with an error but has already queued a logged-in session")
			} else {
				r.Ok(rule, FuncName(fn), "PutSession("+uid+") after the storage writes", posf(c, op.Call), "no storage write of this function follows the session write")
			}
		}
	}
	if n == 0 {
		r.Unknown(rule, "ab", "session writes", "-", "no PutSession of the user identity found")
	}
}

// zeroValueInvoke: a helper that hands back (value, thing, err) returns zero
// values next to its error; a caller that goes on after the error — logout
// tolerates "no current user" — must not use them. An interface method invoked
// on a field of a struct that is the zero value on the path walked (the
// logger inside a zero FmtLogger), or a FmtLogger method called on such a
// struct, panics before the handler has done its work.
func (c *Ctx) zeroValueInvoke(rule string, only func(*ssa.Function) bool) {
	r := c.R
	isZeroStruct := func(v ssa.Value) bool {
		k, ok := v.(*ssa.Const)
		if !ok || k.Value != nil {
			return false
		}
		_, isS := k.Type().Underlying().(*types.Struct)
		return isS
	}
	hasZeroOperand := func(v ssa.Value) bool {
		phi, ok := v.(*ssa.Phi)
		if !ok {
			return false
		}
		for _, e := range phi.Edges {
			if isZeroStruct(e) {
				return true
			}
		}
		return false
	}
	n := 0
	for _, fn := range c.P.Funcs {
		if !c.inRepo(fn) || strings.HasSuffix(pkgOf(fn), "/mocks") || (only != nil && !only(fn)) || len(fn.Blocks) == 0 {
			continue
		}
		for _, call := range Calls(fn) {
			cc := call.Common()
			var subject ssa.Value
			what := ""
			if cc.IsInvoke() {
				if f, ok := cc.Value.(*ssa.Field); ok && hasZeroOperand(f.X) {
					subject, what = f.X, "invokes "+cc.Method.Name()+" on a field of"
				}
			} else if g := StaticCallee(call); g != nil && len(cc.Args) > 0 && strings.HasPrefix(FuncName(g), "(ab.FmtLogger).") && hasZeroOperand(cc.Args[0]) {
				subject, what = cc.Args[0], "calls "+FuncName(g)+" on"
			}
			if subject == nil {
				continue
			}
			n++
			at := call.(ssa.Instruction)
			q := PathQuery{StartBlock: fn.Blocks[0], GoalP: func(in ssa.Instruction, pv PathView) bool {
				if in != at {
					return false
				}
				if !pv.Precise() {
					return true
				}
				return isZeroStruct(pv.Resolve(subject))
			}}
			if p := q.Find(); p != nil {
				r.Bad(rule, FuncName(fn), "use of a zero "+subject.Type().String(), posf(c, call), "the handler "+what+" a struct that is its zero value on a path that reaches this point (what a helper hands back next to its error): the nil inside it panics, and the request ends before the handler's work — deleting the session, saving the user — is done", c.P.DescribePath(p)...)
			} else {
				r.Ok(rule, FuncName(fn), "use of a zero "+subject.Type().String(), posf(c, call), "not reached with the zero value")
			}
		}
	}
	r.Extra["zero_value_candidates"] = n
}

// assertAfterErrCheck: a plain type assertion (`x.(T)`, which panics on a nil
// interface) of what a storage call returned is made only where that call's
// error is known to be nil: `return abUser.(User), err` hands a load failure
// to the runtime as a panic instead of to the caller as an error.
func (c *Ctx) assertAfterErrCheck(rule string) {
	r := c.R
	n := 0
	for _, fn := range c.P.Funcs {
		if !c.inRepo(fn) || strings.HasSuffix(pkgOf(fn), "/mocks") {
			continue
		}
		for _, b := range fn.Blocks {
			for _, in := range b.Instrs {
				ta, ok := in.(*ssa.TypeAssert)
				if !ok || ta.CommaOk {
					continue
				}
				// the backend calls whose first result can be what is asserted
				var calls []ssa.CallInstruction
				seen := map[ssa.Value]bool{}
				var walk func(v ssa.Value, d int)
				walk = func(v ssa.Value, d int) {
					if v == nil || d > 6 || seen[v] {
						return
					}
					seen[v] = true
					switch x := v.(type) {
					case *ssa.Phi:
						for _, e := range x.Edges {
							walk(e, d+1)
						}
					case *ssa.Extract:
						if x.Index == 0 {
							if call, ok := x.Tuple.(*ssa.Call); ok {
								if _, isB := isBackendCall(call); isB && ErrResult(call) != nil {
									calls = append(calls, call)
								}
							}
						}
					case *ssa.ChangeInterface:
						walk(x.X, d+1)
					}
				}
				walk(ta.X, 0)
				if len(calls) == 0 {
					continue
				}
				n++
				okAll := true
				var badCall ssa.CallInstruction
				for _, call := range calls {
					e := ErrResult(call)
					if HoldsAt(ta, func(f Fact) bool { return f.SaysNil(e) || f.SaysNotNil(ta.X) }) {
						continue
					}
					// the error may reach its test merged with others: no path from the
					// call's failing outcome reaches the assertion
					q := PathQuery{From: call.(ssa.Instruction), NonNil: map[ssa.Value]bool{e: true}, Goal: func(i ssa.Instruction) bool { return i == ssa.Instruction(ta) }}
					if q.Find() == nil {
						continue
					}
					okAll, badCall = false, call
				}
				if okAll {
					r.Ok(rule, FuncName(fn), "assertion of a loaded value", posf(c, ta), "made only after the load's error was found nil")
				} else {
					r.Bad(rule, FuncName(fn), "assertion of a loaded value", posf(c, ta), "the result of "+Callee(badCall)+" ("+posf(c, badCall)+") is type-asserted without its error having been checked: when the backend fails the value is nil and the assertion panics instead of the error being returned")
				}
			}
		}
	}
	r.Extra["asserts_on_loaded_values"] = n
}

// entropyBufRoot: the storage a byte slice handed to an entropy read points into.
func entropyBufRoot(v ssa.Value) ssa.Value {
	for d := 0; d < 10; d++ {
		v = stripConv(v)
		switch x := v.(type) {
		case *ssa.Slice:
			v = x.X
			continue
		case *ssa.FieldAddr:
			if _, ok := stripConv(x.X).(*ssa.Alloc); ok {
				v = x.X // field of a local struct
				continue
			}
		case *ssa.IndexAddr:
			v = x.X
			continue
		}
		break
	}
	return v
}

// disjointRegions: two slices of one allocation that cannot overlap: one ends
// (its high bound) where the other begins (its low bound).
func disjointRegions(a, b, root ssa.Value) bool {
	outer := func(v ssa.Value) *ssa.Slice {
		var last *ssa.Slice
		for d := 0; d < 10; d++ {
			v = stripConv(v)
			sl, ok := v.(*ssa.Slice)
			if !ok {
				break
			}
			last = sl
			if stripConv(sl.X) == root {
				return sl
			}
			v = sl.X
		}
		return last
	}
	sa, sb := outer(a), outer(b)
	if sa == nil || sb == nil || stripConv(sa.X) != root || stripConv(sb.X) != root {
		return false
	}
	return (sa.Low != nil && sb.High != nil && sameBound(sa.Low, sb.High)) || (sb.Low != nil && sa.High != nil && sameBound(sb.Low, sa.High))
}
