package rules

import (
	"strings"

	. "abverif/internal/engine"

	"golang.org/x/tools/go/ssa"
)

// beforeHandlersIssueNothing: the handlers a login flow consults before it
// has decided (Before(EventAuth), Before(EventAuthHijack), Before(EventOAuth2))
// may veto or take the request over, but hand out nothing that authenticates:
// no session identity, no remember token, no remember cookie. At that moment a
// 2FA account has only shown its password.
func (c *Ctx) beforeHandlersIssueNothing(rule string) {
	r := c.R
	uid := c.P.ConstString("", "SessionKey")
	rm := c.P.ConstString("", "CookieRemember")
	n := 0
	for _, evn := range []string{"EventAuth", "EventAuthHijack", "EventOAuth2"} {
		for _, w := range c.Handlers(true, c.Event(evn)) {
			n++
			if w.Handler == nil {
				r.Unknown(rule, FuncName(w.In), "Before("+evn+")", posf(c, w.Call), "handler value could not be resolved to a function")
				continue
			}
			hn := FuncName(w.Handler)
			bad := ""
			at := "-"
			seen := map[*ssa.Function]bool{}
			var visit func(f *ssa.Function, d int)
			visit = func(f *ssa.Function, d int) {
				if seen[f] || d > 3 || bad != "" {
					return
				}
				seen[f] = true
				for _, op := range c.StateOps(f) {
					if op.Op == "put" && ((op.Store == "session" && op.Key == uid) || (op.Store == "cookie" && op.Key == rm)) {
						bad, at = op.String(), posf(c, op.Call)
					}
				}
				for _, call := range Calls(f) {
					if Callee(call) == fnAddRemember {
						bad, at = "AddRememberToken", posf(c, call)
					}
					if g := StaticCallee(call); g != nil && c.inRepo(g) && strings.HasPrefix(pkgOf(g), pkgOf(w.Handler)) {
						visit(g, d+1)
					}
				}
			}
			visit(w.Handler, 0)
			r.Check(bad == "", rule, hn, "Before("+evn+") handler issues nothing", at, "vetoes or takes over only", "a handler consulted before the login is decided hands out "+bad+": the password step of a two-factor account would already yield something that authenticates")
		}
	}
	if n < 4 {
		r.Unknown(rule, "", "census", "-", sprintf("only %d Before(EventAuth/EventAuthHijack/EventOAuth2) registrations found (confirmed by hand: 6)", n))
	}
}

// vetoOnlyAfterCheck: Before(EventAuth) is fired only once the credential of
// this request has been verified. lock.BeforeAuth refreshes the account's
// last-attempt time, so consulting it for a request whose credential is wrong
// (or not yet looked at) would make every failure look recent and would let a
// vetoed wrong attempt go uncounted.
func (c *Ctx) vetoOnlyAfterCheck(rule string) {
	r := c.R
	ev := c.Event("EventAuth")
	n := 0
	for _, fn := range c.P.Funcs {
		for _, f := range Fires(fn) {
			if !f.Before || !f.Const || f.Event != ev {
				continue
			}
			n++
			creds := c.CredsAt(f.Call.(ssa.Instruction))
			r.Check(len(creds) > 0, rule, FuncName(fn), "FireBefore(EventAuth)", posf(c, f.Call), "fired on the success side of "+credKinds(creds), "lock and confirm are consulted before this request's credential has been verified: lock.BeforeAuth stamps the attempt time for wrong attempts too (failures never leave the window) and a vetoed wrong attempt is not counted")
		}
	}
	if n < 4 {
		r.Unknown(rule, "", "census", "-", sprintf("only %d FireBefore(EventAuth) sites found (confirmed by hand: 5)", n))
	}
}

// localizeFallback: totp2fa decides "code accepted" by comparing the status
// text its validate() returns with Localizef(TxtSuccess). That comparison
// separates outcomes only while distinct keys give distinct texts; with a
// partial catalogue the Localizer answers "" for every missing key, so the
// helper must fall back to the key's own default text for an empty answer.
func (c *Ctx) localizeFallback(rule string) {
	r := c.R
	fn := c.P.Func("(*ab.Authboss).Localizef")
	name := FuncName(fn)
	nLoc, nDef := 0, 0
	for _, b := range fn.Blocks {
		ret, ok := b.Instrs[len(b.Instrs)-1].(*ssa.Return)
		if !ok || len(ret.Results) != 1 {
			continue
		}
		v := ret.Results[0]
		call, _ := CallOf(v)
		switch {
		case call != nil && call.Common().IsInvoke() && call.Common().Method.Name() == "Localizef":
			nLoc++
			ok := HasFact(FactsAtInstr(ret), func(f Fact) bool { return f.SaysNonEmpty(v) })
			r.Check(ok, rule, name, "translated text returned only when non-empty", posf(c, ret), "empty translations fall back to the default text", "the Localizer's answer is returned even when it is empty: with a partial catalogue \"invalid code\" and \"success\" are both \"\", and totp2fa, which compares these texts, accepts any code (remove, validate)")
		case call != nil && Callee(call) == "fmt.Sprintf":
			nDef++
		default:
			r.Bad(rule, name, "return", posf(c, ret), "returns neither the translation nor the formatted default text")
		}
	}
	if nDef == 0 {
		r.Bad(rule, name, "default text", c.P.Pos(fn.Pos()), "the key's default text is never returned")
	}
	_ = nLoc
}

// verdictNotAnError: in the login handlers, the error a credential checker
// returns IS the verdict "wrong credential". A handler that hands it back as
// its own error answers some wrong passwords (those the hasher rejects for
// another reason than a mismatch: a malformed, empty or foreign hash — the
// accounts the OAuth2 module creates have an empty one) with a server error,
// while an unknown account gets the ordinary "invalid credentials" page.
func (c *Ctx) verdictNotAnError(rule string) {
	r := c.R
	n := 0
	for _, hn := range []string{"(*ab/auth.Auth).LoginPost", "(*ab/otp.OTP).LoginPost"} {
		fn := c.P.FuncOpt(hn)
		if fn == nil {
			continue
		}
		for _, b := range fn.Blocks {
			if len(b.Instrs) == 0 {
				continue
			}
			ifi, ok := b.Instrs[len(b.Instrs)-1].(*ssa.If)
			if !ok {
				continue
			}
			for _, pol := range []bool{true, false} {
				cs := c.credOf(ifi.Cond, pol, 0)
				if len(cs) == 0 || !c.isAuthDecisionCred(cs) {
					continue
				}
				var verdicts []ssa.Value
				for _, cr := range flatten(cs) {
					if cr.Check != nil {
						if ve := ErrResult(cr.Check); ve != nil {
							verdicts = append(verdicts, ve)
						}
					}
				}
				if len(verdicts) == 0 {
					continue
				}
				n++
				failSucc := b.Succs[1]
				if !pol {
					failSucc = b.Succs[0]
				}
				q := PathQuery{StartBlock: failSucc, StartPred: b, Goal: func(i ssa.Instruction) bool {
					ret, ok := i.(*ssa.Return)
					if !ok || len(ret.Results) == 0 {
						return false
					}
					for _, ve := range verdicts {
						if carriesErr(ve, ret.Results[len(ret.Results)-1], 0) {
							return true
						}
					}
					return false
				}}
				if p := q.Find(); p != nil {
					r.Bad(rule, FuncName(fn), "verdict of "+credKinds(cs)+" returned as an error", posf(c, ifi), "a rejected credential can leave the handler as a server error (the checker's own error is returned) instead of the invalid-credentials answer an unknown account gets", c.P.DescribePath(p)...)
				} else {
					r.Ok(rule, FuncName(fn), "verdict of "+credKinds(cs)+" returned as an error", posf(c, ifi), "every rejection is answered as invalid credentials")
				}
			}
		}
	}
	if n == 0 {
		r.Unknown(rule, "", "decisions", "-", "no error-valued credential decision found in the login handlers")
	}
}
