package rules

import (
	"go/token"
	"go/types"
	"strings"

	. "abverif/internal/engine"

	"golang.org/x/tools/go/ssa"
)

// tokenHandler describes one mailed-token consumer.
type tokenHandler struct {
	fn       string // handler
	lookup   string // selector look-up callee
	verifier string // accessor of the stored verifier
	expiry   string // accessor of the expiry ("" if none)
	clears   []string
}

var tokenHandlers = []tokenHandler{
	{fn: "(*ab/confirm.Confirm).Get", lookup: fnLoadConfirm, verifier: "GetConfirmVerifier", clears: []string{"PutConfirmSelector", "PutConfirmVerifier"}},
	{fn: "(*ab/recover.Recover).EndPost", lookup: fnLoadRecover, verifier: "GetRecoverVerifier", expiry: "GetRecoverExpiry", clears: []string{"PutRecoverSelector", "PutRecoverVerifier"}},
}

const (
	fnB64Decode  = "(*encoding/base64.Encoding).DecodeString"
	fnB64Encode  = "(*encoding/base64.Encoding).EncodeToString"
	fnParseToken = "(ab.OneTimeTokenGenerator).ParseToken"
	fnTokenSize  = "(ab.OneTimeTokenGenerator).TokenSize"
	fnGenToken   = "(ab.OneTimeTokenGenerator).GenerateToken"
	fnSum512     = "crypto/sha512.Sum512"
	gURLEncoding = "encoding/base64.URLEncoding"
	gStdEncoding = "encoding/base64.StdEncoding"
)

// encodingOf returns the global encoding object a base64 call is made on.
func encodingOf(call ssa.CallInstruction) string {
	g := loadOfGlobal(Arg(call, 0))
	if g == nil {
		return ""
	}
	return g.Pkg.Pkg.Path() + "." + g.Name()
}

// C05: confirm / recovery links: once, own account, unmodified.
func C05(c *Ctx) {
	r := c.R
	r.Explanation = "Static necessary conditions for C05, on confirm.Get and recover.EndPost: (1) every mutation of the looked-up user and every storer write is edge-dominated by ALL of: base64url decode succeeded, len(raw)==TokenSize(), selector look-up succeeded, constant-time compare of the full verifier hash ==1 (plus, for recovery, !now.After(GetRecoverExpiry())); hence every rejection exit is reached with nothing changed; (2) selector looked up, verifier compared and user mutated all derive from one ParseToken(raw) of the submitted token and one look-up; (3) on the success path selector and verifier are overwritten with the empty constant and saved before the success response; (4) a new recovery request overwrites selector, verifier and expiry=now+RecoverTokenDuration and saves before mailing; (5) codec agreement: the generator encodes the token with base64.URLEncoding and the halves' hashes with StdEncoding, the handlers decode/encode with the same objects, and generator and parser split at the same constant and hash with the same function."
	r.NotDecided = []string{"collision / pre-image resistance of SHA-512", "the 'every bit flip' quantifier is reduced to: compare is constant-time over the full 64-byte hash", "storage returning the user for a selector (integrator)"}

	for _, th := range tokenHandlers {
		fn := c.P.FuncOpt(th.fn)
		if fn == nil {
			r.Unknown("C05.gates", th.fn, "handler", "-", "token handler not found")
			continue
		}
		c.tokenHandlerGates(th, fn)
	}
	c.recoverSupersession()
	c.tokenCodec()
}

func (c *Ctx) tokenHandlerGates(th tokenHandler, fn *ssa.Function) {
	r := c.R
	name := FuncName(fn)
	lookups := CallsTo(fn, th.lookup)
	if len(lookups) != 1 {
		r.Unknown("C05.gates", name, th.lookup, "-", sprintf("expected one selector look-up, found %d", len(lookups)))
		return
	}
	lk := lookups[0]
	lkErr := ErrResult(lk)
	// the chain feeding the look-up
	selOrig := c.rawOrigins(Arg(lk, 1))
	var parse ssa.CallInstruction
	for _, o := range selOrig {
		if o.Kind == "call" && strings.HasPrefix(o.Name, fnParseToken+"#0") {
			parse = o.V.(ssa.CallInstruction)
		}
	}
	if parse == nil {
		r.Bad("C05.bind", name, "selector", posf(c, lk), "selector looked up does not derive from ParseToken(raw)#0 (origins: "+names(selOrig)+")")
		return
	}
	// raw token: DecodeString of the submitted token with URLEncoding
	decode := chainCall(Arg(parse, 0), fnB64Decode, 0)
	if decode == nil {
		r.Bad("C05.bind", name, "raw token", posf(c, parse), "ParseToken argument does not derive from a base64 decode of the submitted token")
		return
	}
	r.Check(encodingOf(decode) == gURLEncoding, "C05.codec", name, "decode(token)", posf(c, decode), "token decoded with base64.URLEncoding", "token is decoded with "+encodingOf(decode)+", the generator encodes it with base64.URLEncoding")
	submitted := HasOrigin(c.rawOrigins(Arg(decode, 1)), func(o Origin) bool { return o.Kind == "call" && strings.Contains(o.Name, ".GetToken#") })
	r.Check(submitted, "C05.bind", name, "decode(token).arg", posf(c, decode), "decodes the submitted token", "decoded value is not the submitted token")
	decErr := ErrResult(decode)
	rawTok := ResultValue(decode, 0)

	// selector encoded with StdEncoding
	for _, o := range selOrig {
		if o.Kind == "global" && strings.HasPrefix(o.Name, "encoding/base64.") {
			r.Check(o.Name == gStdEncoding, "C05.codec", name, "encode(selector)", posf(c, lk), "selector hash encoded with base64.StdEncoding as stored", "selector hash encoded with "+o.Name+" but stored values use StdEncoding")
		}
	}

	// gate predicates
	gDecode := func(f Fact) bool { return decErr != nil && f.SaysNil(decErr) }
	gSize := func(f Fact) bool {
		rel := f.Rel()
		if rel.Op != token.EQL {
			return false
		}
		x, y := rel.X, rel.Y
		for k := 0; k < 2; k++ {
			if StrLenValue(x) == rawTok {
				if call, _ := CallOf(y); call != nil && Callee(call) == fnTokenSize {
					return true
				}
			}
			x, y = y, x
		}
		return false
	}
	gLookup := func(f Fact) bool { return lkErr != nil && f.SaysNil(lkErr) }
	user := ResultValue(lk, 0)
	gExpiry := func(f Fact) bool {
		rel := f.Rel()
		if rel.B == nil || rel.Pol {
			return false
		}
		call, _ := CallOf(rel.B)
		if call == nil || Callee(call) != "(time.Time).After" {
			return false
		}
		// the instants compared are "now" and the stored expiry themselves: a zone
		// conversion leaves an instant what it is, arithmetic (Add, Sub, Truncate to a
		// unit) moves it and with it the moment the link dies
		instant := func(v ssa.Value) ssa.CallInstruction {
			for d := 0; d < 4; d++ {
				ic, _ := CallOf(v)
				if ic == nil {
					return nil
				}
				switch Callee(ic) {
				case "(time.Time).UTC", "(time.Time).Local":
					v = Arg(ic, 0)
					continue
				}
				return ic
			}
			return nil
		}
		nc, ec := instant(Arg(call, 0)), instant(Arg(call, 1))
		now := nc != nil && Callee(nc) == "time.Now"
		exp := ec != nil && ec.Common().IsInvoke() && ec.Common().Method.Name() == th.expiry
		return now && exp
	}
	// verifier compare: ctc credential whose operands are ParseToken#1 (same call) and the stored verifier of the looked-up user
	verifierOK := func(at ssa.Instruction) (bool, string) {
		for _, cr := range c.credsOfFacts(FactsAtInstr(at)) {
			if cr.Kind != "ctc" {
				continue
			}
			hasSub, hasDB := false, false
			for _, a := range checkOperands(cr.Check) {
				os := c.rawOrigins(a)
				if HasOrigin(os, func(o Origin) bool { return o.V == parse.Value() && o.Idx == 1 }) {
					hasSub = true
				}
				if HasOrigin(os, func(o Origin) bool { return o.Kind == "call" && strings.Contains(o.Name, "."+th.verifier+"#") }) {
					// of the looked-up user
					for _, o := range os {
						if o.Kind == "call" && strings.Contains(o.Name, "."+th.verifier+"#") {
							if ic, ok := o.V.(ssa.CallInstruction); ok && ic.Common().IsInvoke() && HasOrigin(c.Origins(ic.Common().Value), func(x Origin) bool { return x.V == lk.Value() }) {
								hasDB = true
							}
						}
					}
				}
			}
			if hasSub && hasDB {
				return true, ""
			}
			return false, "compare operands are not (second half of the submitted token, stored verifier of the looked-up user)"
		}
		return false, "no constant-time compare ==1 dominates"
	}

	// protected effects: Put* on the looked-up user, storer writes, and the success response
	type eff struct {
		in   ssa.Instruction
		what string
	}
	var effs []eff
	for _, p := range c.userPuts(fn) {
		if HasOrigin(c.Origins(p.Recv), func(o Origin) bool { return o.V == lk.Value() }) {
			effs = append(effs, eff{p.Call.(ssa.Instruction), p.Method})
		}
	}
	for _, call := range Calls(fn) {
		if _, ok := storerWrites[Callee(call)]; ok {
			effs = append(effs, eff{call.(ssa.Instruction), "Save"})
		}
	}
	// a deferred closure that changes the account runs on every exit after the
	// defer statement: it is an effect at the point where it is installed
	for _, b := range fn.Blocks {
		for _, in := range b.Instrs {
			df, ok := in.(*ssa.Defer)
			if !ok {
				continue
			}
			mc, ok := df.Call.Value.(*ssa.MakeClosure)
			if !ok {
				continue
			}
			cl, _ := mc.Fn.(*ssa.Function)
			if cl == nil {
				continue
			}
			changes := false
			for _, call := range Calls(cl) {
				if _, isW := storerWrites[Callee(call)]; isW {
					changes = true
				}
				if cc := call.Common(); cc.IsInvoke() && strings.HasPrefix(cc.Method.Name(), "Put") && c.isUserType(cc.Value.Type()) {
					changes = true
				}
			}
			if changes {
				effs = append(effs, eff{df, "deferred " + FuncName(cl)})
			}
		}
	}
	if len(effs) == 0 {
		r.Unknown("C05.gates", name, "effects", "-", "no mutation of the looked-up user found")
	}
	_ = user
	for _, e := range effs {
		fs := FactsAtInstr(e.in)
		pos := posf(c, e.in)
		var missing []string
		if !HoldsGiven(fs, gDecode) {
			missing = append(missing, "base64 decode succeeded")
		}
		if !HoldsGiven(fs, gSize) {
			missing = append(missing, "len(raw)==TokenSize()")
		}
		if !HoldsGiven(fs, gLookup) {
			missing = append(missing, "selector look-up succeeded")
		}
		if ok, why := verifierOK(e.in); !ok {
			missing = append(missing, "verifier compare ("+why+")")
		}
		if th.expiry != "" && !HoldsGiven(fs, gExpiry) {
			missing = append(missing, "!now.After("+th.expiry+"())")
		}
		if len(missing) == 0 {
			r.Ok("C05.gates", name, e.what, pos, "dominated by decode, size, look-up, verifier compare"+map[bool]string{true: ", expiry", false: ""}[th.expiry != ""])
		} else {
			r.Bad("C05.gates", name, e.what, pos, "effect on the account is not dominated by: "+strings.Join(missing, "; ")+" — a token that fails that test would still change the account", factList(c, e.in)...)
		}
	}
	// (3) single use
	for _, m := range th.clears {
		ok := false
		pos := c.P.Pos(fn.Pos())
		for _, call := range c.userCalls(fn, m) {
			pos = posf(c, call)
			if s, isC := ConstStr(Arg(call, 0)); isC && s == "" {
				ok = true
			}
		}
		r.Check(ok, "C05.single-use", name, m+`("")`, pos, "cleared with the empty constant", "the used token's "+m+" is not overwritten with the empty string")
	}
	// (3b) a link that has no further condition to meet (confirmation) is spent by
	// every request that presents it: from the verifier compare, along its success
	// edge, no return that can report success is reached before the token is cleared
	if th.expiry == "" {
		for _, cmp := range CallsTo(fn, fnCTC) {
			for _, m := range th.clears {
				q := PathQuery{From: cmp.(ssa.Instruction), Cut: func(i ssa.Instruction) bool {
					call, ok := i.(ssa.CallInstruction)
					if !ok || !call.Common().IsInvoke() || call.Common().Method.Name() != m {
						return false
					}
					s, isC := ConstStr(Arg(call, 0))
					return isC && s == ""
				}, GoalP: c.nonErrorReturn, PruneFact: func(f Fact) bool {
					for _, cr := range c.credOf(f.Cond, !f.Pol, 0) {
						if cr.Kind == "ctc" && cr.Check == cmp {
							return true
						}
					}
					return false
				}}
				if p := q.Find(); p != nil {
					r.Bad("C05.single-use", name, "compare ok ⇒ "+m+`("")`, posf(c, p[len(p)-1]), "a request whose token matched can be answered without the token being cleared: the same link is accepted again", c.P.DescribePath(p)...)
				} else {
					r.Ok("C05.single-use", name, "compare ok ⇒ "+m+`("")`, posf(c, cmp), "every answer to a matching token clears it first")
				}
			}
		}
	}
	c.mustSaveAfterPut("C05.save", fn, nil)
	// the new password and the spent token reach storage in one write: no storer
	// write lies between setting the password and clearing the token
	for _, pp := range c.userCalls(fn, "PutPassword") {
		for _, m := range th.clears {
			var clears []ssa.Instruction
			for _, call := range c.userCalls(fn, m) {
				if s, isC := ConstStr(Arg(call, 0)); isC && s == "" {
					clears = append(clears, call.(ssa.Instruction))
				}
			}
			if len(clears) == 0 {
				continue // reported by C05.single-use
			}
			pre := false
			for _, cl := range clears {
				if InstrDominates(cl, pp.(ssa.Instruction)) {
					pre = true
				}
			}
			if pre {
				continue
			}
			q := PathQuery{From: pp.(ssa.Instruction), Cut: func(i ssa.Instruction) bool {
				for _, cl := range clears {
					if i == cl {
						return true
					}
				}
				return false
			}, Goal: func(i ssa.Instruction) bool {
				call, ok := i.(ssa.CallInstruction)
				if !ok {
					return false
				}
				_, isW := storerWrites[Callee(call)]
				return isW
			}}
			if p := q.Find(); p != nil {
				r.Bad("C05.atomic", name, "PutPassword…"+m+`("")…Save`, posf(c, p[len(p)-1]), "the account is written to storage with the new password while the used token's "+m[3:]+" is still set: if the later write fails, or between the two, the same link changes the password again", c.P.DescribePath(p)...)
			} else {
				r.Ok("C05.atomic", name, "PutPassword…"+m+`("")…Save`, posf(c, pp), "the token is cleared before the account is written")
			}
		}
	}
	if k, at := c.errHandlingAll(fn, fnSave); k != "" {
		r.Bad("C05.save-err", name, "Save.err", posf(c, at), "error of Save is "+k)
	} else {
		r.Ok("C05.save-err", name, "Save.err", "-", "Save errors are tested or returned")
	}
}

func (c *Ctx) recoverSupersession() {
	r := c.R
	fn := c.P.FuncOpt("(*ab/recover.Recover).StartPost")
	if fn == nil {
		r.Unknown("C05.supersede", "(*ab/recover.Recover).StartPost", "handler", "-", "not found")
		return
	}
	name := FuncName(fn)
	gens := CallsTo(fn, fnGenToken)
	if len(gens) != 1 {
		r.Unknown("C05.supersede", name, "GenerateToken", "-", sprintf("expected one GenerateToken call, found %d", len(gens)))
		return
	}
	gen := gens[0]
	wantIdx := map[string]int{"PutRecoverSelector": 0, "PutRecoverVerifier": 1}
	for m, idx := range wantIdx {
		ok := false
		pos := posf(c, gen)
		for _, call := range c.userCalls(fn, m) {
			if e, isE := Arg(call, 0).(*ssa.Extract); isE && e.Tuple == gen.Value() && e.Index == idx {
				ok = true
				pos = posf(c, call)
				continue
			}
			// the request writes nothing but its own token: putting another value
			// (an earlier token kept aside) revives a link that a newer mail replaced
			r.Bad("C05.supersede", name, m+" other value", posf(c, call), "a recovery request stores a "+m[3:]+" that is not the fresh generator output ("+SafeString(Arg(call, 0))+"): a token that was already replaced can become valid again while the one just mailed is not")
		}
		r.Check(ok, "C05.supersede", name, m, pos, sprintf("stores result #%d of the fresh GenerateToken", idx), "a new recovery request does not overwrite "+m+" with the fresh generator output")
	}
	okExp := false
	posE := posf(c, gen)
	for _, call := range c.userCalls(fn, "PutRecoverExpiry") {
		posE = posf(c, call)
		ac, _ := CallOf(Arg(call, 0))
		if ac != nil && Callee(ac) == "(time.Time).Add" && fieldLoadName(Arg(ac, 1)) == "RecoverTokenDuration" &&
			HasOrigin(c.rawOrigins(Arg(ac, 0)), func(o Origin) bool { return o.Kind == "call" && strings.HasPrefix(o.Name, "time.Now#") }) {
			okExp = true
		}
	}
	r.Check(okExp, "C05.supersede", name, "PutRecoverExpiry", posE, "expiry = now + RecoverTokenDuration", "expiry is not time.Now()+RecoverTokenDuration")
	c.mustSaveAfterPut("C05.save", fn, nil)
	// the token mailed is result #2 of the same call and is mailed only after the save succeeded
	saves := CallsTo(fn, fnSave)
	for _, call := range Calls(fn) {
		if Callee(call) != "(*ab/recover.Recover).SendRecoverEmail" {
			continue
		}
		tok := Arg(call, len(call.Common().Args)-1)
		e, isE := tok.(*ssa.Extract)
		okTok := isE && e.Tuple == gen.Value() && e.Index == 2
		okOrder := false
		for _, s := range saves {
			if se := ErrResult(s); se != nil && ErrNilAt(call.(ssa.Instruction), se) {
				okOrder = true
			}
		}
		r.Check(okTok && okOrder, "C05.supersede", name, "SendRecoverEmail", posf(c, call), "mails result #2 of the same GenerateToken, after the save succeeded", "mailed token is not the fresh one or is mailed before the save is known to have succeeded")
	}
}

// tokenCodec: generator and parser agree.
func (c *Ctx) tokenCodec() {
	r := c.R
	gen := c.P.Func("(*ab.Sha512TokenGenerator).GenerateToken")
	par := c.P.Func("(*ab.Sha512TokenGenerator).ParseToken")
	// the token's size and where it is split: unexported constants, read where
	// they are used (the buffer the generator draws into; the bound of the first
	// half it hashes), so that renaming them changes nothing
	size, split := int64(0), int64(0)
	for _, call := range Calls(gen) {
		var buf ssa.Value
		switch Callee(call) {
		case "io.ReadFull", "io.ReadAtLeast":
			buf = Arg(call, 1)
		case "crypto/rand.Read":
			buf = Arg(call, 0)
		}
		for d := 0; buf != nil && d < 8; d++ {
			switch x := buf.(type) {
			case *ssa.Slice:
				buf = x.X
				continue
			case *ssa.Phi:
				var one ssa.Value
				for _, e := range x.Edges {
					if !IsNilConst(e) {
						one = e
					}
				}
				buf = one
				continue
			case *ssa.MakeSlice:
				size, _ = ConstInt(x.Len)
			case *ssa.Alloc:
				if at, ok := x.Type().Underlying().(*types.Pointer).Elem().Underlying().(*types.Array); ok {
					size = at.Len()
				}
			}
			break
		}
	}
	for _, call := range CallsTo(gen, fnSum512) {
		var find func(v ssa.Value, d int)
		find = func(v ssa.Value, d int) {
			if d > 6 {
				return
			}
			switch x := v.(type) {
			case *ssa.Slice:
				if x.Low == nil && x.High != nil {
					if k, ok := ConstInt(x.High); ok {
						split = k
					}
				}
			case *ssa.Convert:
				find(x.X, d+1)
			case *ssa.ChangeType:
				find(x.X, d+1)
			}
		}
		find(Arg(call, 0), 0)
	}
	r.Check(split*2 == size && size > 0, "C05.codec", "ab.tokenSplit", "tokenSplit*2==tokenSize", "-", sprintf("tokenSize=%d tokenSplit=%d", size, split), sprintf("token halves are not equal: tokenSize=%d tokenSplit=%d", size, split))
	// slices feeding Sum512 in both functions: [:split] and [split:]
	shape := func(fn *ssa.Function) (lowHalf, highHalf bool, n int) {
		for _, call := range CallsTo(fn, fnSum512) {
			n++
			var sl *ssa.Slice
			var find func(v ssa.Value, d int)
			find = func(v ssa.Value, d int) {
				if d > 6 || sl != nil {
					return
				}
				switch x := v.(type) {
				case *ssa.Slice:
					sl = x
				case *ssa.Convert:
					find(x.X, d+1)
				case *ssa.ChangeType:
					find(x.X, d+1)
				}
			}
			find(Arg(call, 0), 0)
			if sl == nil {
				continue
			}
			lo, loOK := int64(0), sl.Low == nil
			if sl.Low != nil {
				lo, loOK = ConstInt(sl.Low)
			}
			hi, hiOK := int64(-1), sl.High == nil
			if sl.High != nil {
				hi, hiOK = ConstInt(sl.High)
			}
			if loOK && hiOK && lo == 0 && hi == split {
				lowHalf = true
			}
			if loOK && hiOK && lo == split && hi == -1 {
				highHalf = true
			}
		}
		return
	}
	for _, fn := range []*ssa.Function{gen, par} {
		lo, hi, n := shape(fn)
		r.Check(lo && hi && n == 2, "C05.codec", FuncName(fn), "halves", c.P.Pos(fn.Pos()), "hashes raw[:tokenSplit] and raw[tokenSplit:] with sha512.Sum512", sprintf("does not hash exactly the two halves split at tokenSplit (sum512 calls: %d, first half: %v, second half: %v)", n, lo, hi))
	}
	// the bytes hashed (and handed out) are the bytes this call drew: the buffer
	// whose halves are hashed is the one the entropy read of this very call
	// filled — not a copy of some longer-lived pool, whose windows may overlap
	// from one token to the next
	var bufRoot func(v ssa.Value) ssa.Value
	bufRoot = func(v ssa.Value) ssa.Value {
		for d := 0; d < 8; d++ {
			switch x := v.(type) {
			case *ssa.Slice:
				v = x.X
				continue
			case *ssa.Convert:
				v = x.X
				continue
			case *ssa.ChangeType:
				v = x.X
				continue
			case *ssa.Phi:
				// what a `(buf, err)` helper leaves once inlined: nil on its error
				// returns, the buffer otherwise
				var one ssa.Value
				for _, e := range x.Edges {
					if IsNilConst(e) || e == ssa.Value(x) {
						continue
					}
					if _, nested := e.(*ssa.Phi); nested {
						return v // merges of merges: not the helper shape
					}
					r := bufRoot(e)
					if one != nil && one != r {
						return v
					}
					one = r
				}
				if one != nil {
					return one
				}
			}
			break
		}
		return v
	}
	var drawn ssa.Value
	for _, call := range Calls(gen) {
		switch Callee(call) {
		case "io.ReadFull", "io.ReadAtLeast":
			drawn = bufRoot(Arg(call, 1))
		case "crypto/rand.Read":
			drawn = bufRoot(Arg(call, 0))
		}
	}
	if drawn == nil {
		r.Unknown("C05.fresh-bytes", FuncName(gen), "entropy read", "-", "no read of the entropy source found in the generator")
	} else {
		_, isMk := drawn.(*ssa.MakeSlice)
		_, isAl := drawn.(*ssa.Alloc)
		r.Check(isMk || isAl, "C05.fresh-bytes", FuncName(gen), "buffer drawn into", c.P.Pos(gen.Pos()), "the entropy is read into a buffer allocated by this call", "the entropy is read into storage that outlives the call ("+SafeString(drawn)+"): the bytes of one token can be handed out again as part of another")
		for i, call := range CallsTo(gen, fnSum512) {
			var src ssa.Value
			var find func(v ssa.Value, d int)
			find = func(v ssa.Value, d int) {
				if d > 6 || src != nil {
					return
				}
				switch x := v.(type) {
				case *ssa.Slice:
					src = bufRoot(x)
				case *ssa.Convert:
					find(x.X, d+1)
				case *ssa.ChangeType:
					find(x.X, d+1)
				}
			}
			find(Arg(call, 0), 0)
			r.Check(src == drawn, "C05.fresh-bytes", FuncName(gen), sprintf("Sum512#%d input", i), posf(c, call), "hashes the buffer the entropy read filled", "the half hashed is not taken from the buffer this call's entropy read filled: selector and verifier of different tokens can share bytes (a token spliced from two others is accepted)")
		}
		// nothing else writes the buffer
		for _, call := range Calls(gen) {
			if bi, isB := call.Common().Value.(*ssa.Builtin); isB && bi.Name() == "copy" && bufRoot(Arg(call, 0)) == drawn {
				r.Bad("C05.fresh-bytes", FuncName(gen), "copy into token buffer", posf(c, call), "the drawn bytes are overwritten before they are hashed")
			}
		}
	}
	// generator's encoders: results 0,1 StdEncoding, result 2 URLEncoding over the raw token
	for _, b := range gen.Blocks {
		for _, in := range b.Instrs {
			ret, ok := in.(*ssa.Return)
			if !ok || len(ret.Results) != 4 || !IsNilConst(ret.Results[3]) {
				continue
			}
			want := []string{gStdEncoding, gStdEncoding, gURLEncoding}
			for i, w := range want {
				call, _ := CallOf(ret.Results[i])
				ok := call != nil && Callee(call) == fnB64Encode && encodingOf(call) == w
				r.Check(ok, "C05.codec", FuncName(gen), sprintf("result#%d encoding", i), posf(c, ret), "encoded with "+w, sprintf("result #%d is not encoded with %s", i, w))
			}
			// result 2 is the raw token itself (not a hash)
			call, _ := CallOf(ret.Results[2])
			if call != nil {
				hashed := HasOrigin(c.rawOrigins(Arg(call, 1)), func(o Origin) bool { return false })
				_ = hashed
			}
		}
	}
	// TokenSize returns the constant
	ts := c.P.Func("(*ab.Sha512TokenGenerator).TokenSize")
	okTS := false
	for _, b := range ts.Blocks {
		for _, in := range b.Instrs {
			if ret, ok := in.(*ssa.Return); ok && len(ret.Results) == 1 {
				if v, isC := ConstInt(ret.Results[0]); isC && v == size {
					okTS = true
				}
			}
		}
	}
	r.Check(okTS, "C05.codec", FuncName(ts), "TokenSize()==tokenSize", c.P.Pos(ts.Pos()), "size check uses the generator's size", "TokenSize does not return tokenSize")
}

// chainCall follows conversions, extracts, slices and phis from v to a call
// of the named callee.
func chainCall(v ssa.Value, name string, d int) ssa.CallInstruction {
	if v == nil || d > 10 {
		return nil
	}
	switch x := v.(type) {
	case *ssa.Call:
		if Callee(x) == name {
			return x
		}
	case *ssa.Extract:
		return chainCall(x.Tuple, name, d+1)
	case *ssa.Convert:
		return chainCall(x.X, name, d+1)
	case *ssa.ChangeType:
		return chainCall(x.X, name, d+1)
	case *ssa.Slice:
		return chainCall(x.X, name, d+1)
	case *ssa.Phi:
		for _, e := range x.Edges {
			if c := chainCall(e, name, d+1); c != nil {
				return c
			}
		}
	}
	return nil
}
