package rules

import (
	"strings"

	. "abverif/internal/engine"

	"golang.org/x/tools/go/ssa"
)

// secret sanitisers: one-way transformations
var secretSanitisers = map[string]bool{
	fnSum512: true, "crypto/sha256.Sum256": true, fnHashGenerate: true, fnBcryptGen: true,
	"ab/otp/twofactor.BCryptRecoveryCodes": true, fnHashCompare: true, fnBcryptCmp: true, fnCTC: true, fnCTEq: true,
	fnTOTPValidate: true, fnTOTPValidateCustom: true, fnUseRecoveryCode: true, "builtin:len": true, "builtin:cap": true,
}

// generated secrets: callee -> result index holding the plaintext
var generatedSecrets = map[string]int{
	fnGenToken: 2,
	"(*ab.Sha512TokenGenerator).GenerateToken":   2,
	"ab/otp.generateOTP":                         0,
	"ab/otp/twofactor.GenerateRecoveryCodes":     0,
	"ab/remember.GenerateToken":                  1,
	"ab/otp/twofactor.GenerateToken":             0,
	"ab/otp/twofactor/sms2fa.generateRandomCode": 0,
	"ab/confirm.GenerateConfirmCreds":            2,
	"ab/recover.GenerateRecoverCreds":            2,
}

var submittedSecretMethods = map[string]bool{"GetPassword": true, "GetToken": true, "GetCode": true, "GetRecoveryCode": true}

// errors of these external functions quote their input
// (encoding/json errors name types, fields and offsets, not the input)
var echoingErrors = []string{"strconv.", "net/url.Parse", "net/url.ParseRequestURI", "time.Parse"}

// secretSlicer: slice that stops at sanitisers and lifts parameters into callers.
func (c *Ctx) secretSlicer() Slicer {
	return Slicer{
		Fields:   true,
		MaxNodes: 30000,
		ParamArgs: func(p *ssa.Parameter) []ssa.Value {
			fn := p.Parent()
			if fn == nil {
				return nil
			}
			idx := paramIndex(p)
			var out []ssa.Value
			for _, call := range c.Callers(fn) {
				args := call.Common().Args
				if idx >= 0 && idx < len(args) {
					out = append(out, args[idx])
				}
			}
			return out
		},
		Through: func(call ssa.CallInstruction, idx int) ([]ssa.Value, bool) {
			cc := call.Common()
			name := Callee(call)
			if secretSanitisers[name] {
				return nil, false
			}
			if _, ok := generatedSecrets[name]; ok {
				return nil, false
			}
			if originCalls[name] || userSources[name] {
				return nil, false
			}
			if cc.IsInvoke() {
				m := cc.Method.Name()
				if name == "(ab.Renderer).Render" && idx == 0 {
					return cc.Args, true // rendered body carries the template data
				}
				if m == "Error" || m == "String" {
					return []ssa.Value{cc.Value}, true
				}
				return nil, false
			}
			if name == "" || strings.HasPrefix(name, "var:") {
				return nil, false
			}
			sig := cc.Signature()
			isErrResult := idx < sig.Results().Len() && IsErrorType(sig.Results().At(idx).Type())
			if f := StaticCallee(call); f != nil && c.inRepo(f) {
				if transparentRepo(name) {
					return cc.Args, true
				}
				// other repository functions: follow the returned expressions themselves
				var outs []ssa.Value
				for _, b := range f.Blocks {
					for _, in := range b.Instrs {
						if ret, ok := in.(*ssa.Return); ok && idx < len(ret.Results) {
							outs = append(outs, ret.Results[idx])
						}
					}
				}
				return outs, true
			}
			if isErrResult {
				for _, e := range echoingErrors {
					if strings.HasPrefix(name, e) {
						return cc.Args, true
					}
				}
				// error constructors carry their arguments
				if strings.Contains(name, "errors.") || name == "fmt.Errorf" {
					return cc.Args, true
				}
				return nil, false
			}
			if len(cc.Args) == 0 {
				return nil, false
			}
			return cc.Args, true
		},
	}
}

// secretSource classifies an origin as a secret.
func (c *Ctx) secretSource(o Origin, forLog bool) string {
	// the undigested request: body bytes and parsed form hold every submitted
	// secret at once
	if forLog && o.Kind == "field" {
		for _, suf := range []string{"Request.Body", "Request.Form", "Request.PostForm", "Request.MultipartForm"} {
			if strings.HasSuffix(o.Name, suf) {
				return "the raw request (" + suf + "), which carries the submitted password/code/token"
			}
		}
	}
	if o.Kind != "call" {
		return ""
	}
	call, ok := o.V.(ssa.CallInstruction)
	if !ok {
		return ""
	}
	name := Callee(call)
	if idx, ok := generatedSecrets[name]; ok && idx == o.Idx {
		return "generated secret " + name + "#" + sprintf("%d", idx)
	}
	cc := call.Common()
	if cc.IsInvoke() && submittedSecretMethods[cc.Method.Name()] && !c.isUserType(cc.Value.Type()) {
		return "submitted " + cc.Method.Name() + "()"
	}
	if name == fnGetCookie {
		if k, _ := constArgStr(call, 1); k == c.P.ConstString("", "CookieRemember") && o.Idx == 0 {
			return "remember cookie value"
		}
	}
	// the submitted values as a whole (what BodyReader.Read hands back, or its
	// typed view): printed with %v it shows every field, password included
	if forLog && o.Idx == 0 && (name == fnBodyRead || (strings.Contains(name, ".MustHave") && strings.HasSuffix(name, "Values"))) {
		return "the submitted values object (" + name + "), whose printed form includes the password/code/token"
	}
	if forLog && name == fnGetSession && o.Idx == 0 {
		k, _ := constArgStr(call, 1)
		switch k {
		case "sms_secret", "totp_secret", c.P.ConstString("", "Session2FAAuthToken"):
			return "session secret " + k
		}
	}
	if forLog && name == "(*net/http.Request).FormValue" {
		if k, _ := constArgStr(call, 1); k == "code" || k == "token" || k == "password" {
			return "request parameter " + k
		}
	}
	return ""
}

var logSinks = map[string]bool{
	"(ab.FmtLogger).Infof": true, "(ab.FmtLogger).Errorf": true, "(ab.Logger).Info": true, "(ab.Logger).Error": true,
	"(ab/defaults.Logger).Info": true, "(ab/defaults.Logger).Error": true,
}

func isErrorCtor(name string) bool {
	switch name {
	case "errors.New", "fmt.Errorf", "github.com/friendsofgo/errors.New", "github.com/friendsofgo/errors.Errorf",
		"github.com/friendsofgo/errors.Wrap", "github.com/friendsofgo/errors.Wrapf", "github.com/friendsofgo/errors.WithMessage", "github.com/friendsofgo/errors.WithMessagef":
		return true
	}
	return false
}

// allowed (source method -> sink method) storage pairs, with the reason.
var allowedStore = map[string]string{
	"GetCode->PutTOTPLastCode": "replay protection stores the last accepted TOTP code by design (a spent, 30-second value; not in the property's list of hashed secrets)",
}

// C17: secrets are never stored or logged in recoverable form.
func C17(c *Ctx) {
	r := c.R
	r.Explanation = "Static taint analysis for C17 over all packages (interprocedural through parameters into every static caller, through returned expressions of repository functions, through the template data of rendered mail bodies and through error values): sources are submitted secrets (GetPassword/GetToken/GetCode/GetRecoveryCode of the request-value interfaces), generator outputs (the plaintext result of the token, one-time-password, recovery-code, remember-token, e-mail-verify-token and SMS-code generators), the remember cookie value and, for logs, the session-held SMS/TOTP/e-mail secrets; sanitisers are SHA-512, the Hasher, bcrypt and the comparison primitives; sinks are (LOG) every argument of the logger methods and of error constructors (errors end up in the error handler's log) and (STORE) every argument of a Put* on a user object and of a storer method. No source may reach a sink unsanitised. Plus: mailed tokens are sent to GetEmail()/GetSecondaryEmails() of the user whose selector/verifier received the sibling outputs of the same generator call; the default register whitelist does not name the password; the default error handler logs no part of the URL that can carry a token (query, full URL)."
	r.NotDecided = []string{"what an integrator's Put*, logger, mailer or error handler does with its arguments", "secrets echoed in responses by design (recovery token in the form, new one-time codes shown once)", "the TOTP last-code replay value is stored in clear by design (exception table)"}
	sl := c.secretSlicer()
	nLog, nStore := 0, 0
	for _, fn := range c.P.Funcs {
		name := FuncName(fn)
		for _, call := range Calls(fn) {
			cn := Callee(call)
			cc := call.Common()
			switch {
			case logSinks[cn] || isErrorCtor(cn):
				nLog++
				kind := "log"
				if isErrorCtor(cn) {
					kind = "error text"
				}
				var hits []string
				// an argument printed with %T only contributes its type's name
				checked := cc.Args
				if typeOnly, elems := typeOnlyArgs(call); len(typeOnly) > 0 {
					checked = append([]ssa.Value{}, cc.Args[:len(cc.Args)-1]...)
					for _, e := range elems {
						if !typeOnly[e] {
							checked = append(checked, e)
						}
					}
				}
				for _, a := range checked {
					for _, o := range sl.Origins(a) {
						if s := c.secretSource(o, true); s != "" {
							hits = append(hits, s+" (from "+posf(c, o.V.(ssa.Instruction))+")")
						}
					}
				}
				if len(hits) > 0 {
					r.Bad("C17.log", name, kind+" "+cn, posf(c, call), "a secret reaches a "+kind+" argument unhashed: "+strings.Join(uniq(hits), "; "))
				} else {
					r.Ok("C17.log", name, kind+" "+cn+"@"+sprintf("%d", lineOf(c, call)), posf(c, call), "no secret reaches this "+kind)
				}
			case cc.IsInvoke() && strings.HasPrefix(cc.Method.Name(), "Put") && c.isUserType(cc.Value.Type()):
				nStore++
				c.storeSink(sl, name, call, cc.Method.Name(), cc.Args)
			case cn == fnAddRemember || cn == fnUseRemember:
				// the token argument (the PID argument is an identifier, not a secret)
				nStore++
				c.storeSink(sl, name, call, strings.TrimPrefix(cn[strings.Index(cn, ")."):], ")."), cc.Args[2:3])
			}
		}
	}
	r.Extra["log_and_error_sinks"] = nLog
	r.Extra["store_sinks"] = nStore
	r.Extra["log_and_error_sinks_reference_floor"] = 70
	r.Extra["store_sinks_reference_floor"] = 40
	if nLog < 40 || nStore < 20 {
		r.Unknown("C17.log", "", "sink census", "-", sprintf("only %d log/error sinks and %d store sinks were found: the sink tables no longer match the code", nLog, nStore))
	}
	c.mailRecipients()
	c.registerWhitelist()
	c.errorHandlerURL()
	c.ctxDataReadOnly("C17.ctx-data")
}

func lineOf(c *Ctx, i ssa.Instruction) int {
	if !i.Pos().IsValid() {
		return 0
	}
	return c.P.Fset.Position(i.Pos()).Line
}

func (c *Ctx) storeSink(sl Slicer, fn string, call ssa.CallInstruction, method string, args []ssa.Value) {
	r := c.R
	var hits []string
	for _, a := range args {
		for _, o := range sl.Origins(a) {
			s := c.secretSource(o, false)
			if s == "" {
				continue
			}
			// allowed pairs
			if ic, ok := o.V.(ssa.CallInstruction); ok && ic.Common().IsInvoke() {
				if why, ok := allowedStore[ic.Common().Method.Name()+"->"+method]; ok {
					r.Info("C17.store", fn, method, posf(c, call), "exempt: "+why)
					continue
				}
			}
			hits = append(hits, s+" (from "+posf(c, o.V.(ssa.Instruction))+")")
		}
	}
	if len(hits) > 0 {
		r.Bad("C17.store", fn, method, posf(c, call), "a secret reaches storage unhashed: "+strings.Join(uniq(hits), "; "))
	} else {
		r.Ok("C17.store", fn, method+"@"+sprintf("%d", lineOf(c, call)), posf(c, call), "no plaintext secret reaches this storage call")
	}
}

// mailRecipients: each mailed token goes to the address(es) of the user it was issued for.
func (c *Ctx) mailRecipients() {
	r := c.R
	type m struct{ sender, holder string }
	for _, x := range []m{{"(*ab/confirm.Confirm).SendConfirmEmail", "(*ab/confirm.Confirm).StartConfirmation"}, {"(*ab/recover.Recover).SendRecoverEmail", "(*ab/recover.Recover).StartPost"}, {"(ab/otp/twofactor.EmailVerify).SendVerifyEmail", "(ab/otp/twofactor.EmailVerify).PostStart"}} {
		holder := c.P.FuncOpt(x.holder)
		if holder == nil {
			continue
		}
		n := 0
		for _, call := range Calls(holder) {
			if Callee(call) != x.sender {
				continue
			}
			n++
			args := call.Common().Args
			to := args[len(args)-2]
			os := c.rawOrigins(to)
			okAddr := true
			var who []Origin
			for _, o := range os {
				switch o.Kind {
				case "call":
					ic := o.V.(ssa.CallInstruction)
					if ic.Common().IsInvoke() && (ic.Common().Method.Name() == "GetEmail" || ic.Common().Method.Name() == "GetSecondaryEmails") && c.isUserType(ic.Common().Value.Type()) {
						who = append(who, c.identityOrigins(c.Origins(ic.Common().Value))...)
						continue
					}
					okAddr = false
				case "const", "other":
				default:
					okAddr = false
				}
			}
			// the same user is the one saved with the token's hashes (or the current user for the session-bound token)
			var saved []Origin
			for _, s := range CallsTo(holder, fnSave) {
				saved = append(saved, c.identityOrigins(c.Origins(Arg(s, 1)))...)
			}
			for _, u := range CallsTo(holder, fnCurrentUser) {
				saved = append(saved, Origin{Kind: "call", V: u.Value(), Name: fnCurrentUser + "#0"})
			}
			r.Check(okAddr && len(who) > 0 && sameOriginValue(who, saved), "C17.mail-to", x.holder, x.sender+".to", posf(c, call), "mailed only to GetEmail()/GetSecondaryEmails() of the user the token was issued for", "the token is mailed to an address that is not the account's own (origins: "+names(os)+")")
		}
		if n == 0 {
			r.Unknown("C17.mail-to", x.holder, x.sender, "-", "no send site found")
		}
	}
}

func (c *Ctx) registerWhitelist() {
	r := c.R
	fn := c.P.FuncOpt("ab/defaults.NewHTTPBodyReader")
	if fn == nil {
		return
	}
	name := FuncName(fn)
	// collect every constant string stored into slices that are stored under a map built for the Whitelist field
	bad := ""
	var listed []string
	for _, b := range fn.Blocks {
		for _, in := range b.Instrs {
			mu, ok := in.(*ssa.MapUpdate)
			if !ok {
				continue
			}
			// is this map stored into the Whitelist field?
			isWL := false
			if mm, ok := mu.Map.(*ssa.MakeMap); ok && mm.Referrers() != nil {
				for _, ref := range *mm.Referrers() {
					if st, ok := ref.(*ssa.Store); ok {
						if fa, ok := st.Addr.(*ssa.FieldAddr); ok && fieldName(fa) == "Whitelist" {
							isWL = true
						}
					}
				}
			}
			if !isWL {
				continue
			}
			page, _ := ConstStr(mu.Key)
			for _, e := range varargElems(mu.Value) {
				if s, ok := ConstStr(e); ok {
					listed = append(listed, page+":"+s)
					if strings.Contains(strings.ToLower(s), "password") {
						bad = page + ":" + s
					}
				}
			}
		}
	}
	r.Extra["default_whitelist"] = listed
	if len(listed) == 0 {
		r.Unknown("C17.whitelist", name, "Whitelist", c.P.Pos(fn.Pos()), "default whitelist literal not found")
		return
	}
	r.Check(bad == "", "C17.whitelist", name, "Whitelist ∌ password", c.P.Pos(fn.Pos()), "default whitelist: "+strings.Join(listed, ", "), "the default whitelist hands the submitted password ("+bad+") verbatim to ArbitraryUser.PutArbitrary")
}

func (c *Ctx) errorHandlerURL() {
	r := c.R
	if c.P.FuncOpt("(ab/defaults.errorHandler).ServeHTTP") == nil {
		r.Info("C17.error-log", "ab/defaults", "errorHandler", "-", "default error handler not present")
	}
	total := 0
	for _, fn := range c.P.Funcs {
		total += c.urlLog(fn)
	}
	r.Extra["log_calls_checked_for_url_parts"] = total
	if total < 40 {
		r.Unknown("C17.error-log", "", "census", "-", sprintf("only %d log calls found in the library (confirmed by hand: more than 60)", total))
	}
}

// urlLog: no log line of fn carries a part of the request URL that can hold
// a mailed token (the query, the full URL, the parsed form).
func (c *Ctx) urlLog(fn *ssa.Function) int {
	r := c.R
	name := FuncName(fn)
	n := 0
	for _, call := range Calls(fn) {
		cn := Callee(call)
		if !logSinks[cn] {
			continue
		}
		n++
		leak := ""
		for _, a := range call.Common().Args {
			for _, o := range c.fieldOrigins(a) {
				if o.Kind == "field" && (strings.HasSuffix(o.Name, "URL.RawQuery") || strings.HasSuffix(o.Name, "Request.RequestURI") || strings.HasSuffix(o.Name, "Request.Form") || strings.HasSuffix(o.Name, "URL.Fragment")) {
					leak = o.Name
				}
			}
			// (*url.URL).String / RequestURI / Query calls anywhere feeding the log
			var find func(v ssa.Value, d int)
			find = func(v ssa.Value, d int) {
				if d > 8 || v == nil {
					return
				}
				switch x := v.(type) {
				case *ssa.Call:
					switch Callee(x) {
					case "(*net/url.URL).String", "(*net/url.URL).RequestURI", "(*net/url.URL).Query", "(*net/url.URL).Redacted":
						leak = Callee(x)
					case "(*net/http.Request).Referer":
						// the page that posted the form is the mailed link itself
						leak = "the Referer header (the URL of the page the request came from, query included)"
					case "(net/http.Header).Get", "(net/http.Header).Values":
						if k, isC := constArgStr(x, 1); isC && strings.EqualFold(k, "Referer") {
							leak = "the Referer header (the URL of the page the request came from, query included)"
						}
					}
					for _, aa := range x.Call.Args {
						find(aa, d+1)
					}
				case *ssa.BinOp:
					find(x.X, d+1)
					find(x.Y, d+1)
				case *ssa.Phi:
					if d < 6 {
						for _, e := range x.Edges {
							find(e, d+1)
						}
					}
				case *ssa.Extract:
					find(x.Tuple, d+1)
				case *ssa.Convert:
					find(x.X, d+1)
				case *ssa.MakeInterface:
					// the URL object itself handed to the formatter: %s and %v print it
					// through String(), query included
					if ts := x.X.Type().String(); ts == "*net/url.URL" || ts == "net/url.URL" {
						leak = "a net/url.URL value (printed through String(), query included)"
					}
					find(x.X, d+1)
				case *ssa.Slice:
					find(x.X, d+1)
				case *ssa.Alloc:
					if x.Referrers() != nil {
						for _, ref := range *x.Referrers() {
							if ia, ok := ref.(*ssa.IndexAddr); ok && ia.Referrers() != nil {
								for _, rr := range *ia.Referrers() {
									if st, ok := rr.(*ssa.Store); ok {
										find(st.Val, d+1)
									}
								}
							}
						}
					}
				case *ssa.UnOp:
					find(x.X, d+1)
				}
			}
			find(a, 0)
		}
		if leak != "" {
			r.Bad("C17.error-log", name, "log line", posf(c, call), "this log line carries "+leak+": the query of the mail-link routes (confirm, recover, 2FA e-mail verify) holds the mailed, still valid token")
		} else if strings.HasSuffix(name, "errorHandler).ServeHTTP") {
			r.Ok("C17.error-log", name, "log line", posf(c, call), "logs no query-bearing part of the URL")
		}
	}
	return n
}

// ctxDataReadOnly: the data object a middleware attached to the request
// (CTXKeyData) may be shared by several steps — and, when the application
// injects one map into every request, by several clients. The mail and
// response paths merge it INTO their own data; merging the other way round
// leaves the mailed token link behind in an object that outlives the mail.
func (c *Ctx) ctxDataReadOnly(rule string) {
	r := c.R
	n := 0
	for _, fn := range c.P.Funcs {
		name := FuncName(fn)
		// functions that (re-)install the object into the request context are the
		// ones whose job is to add request-scoped data to it (MergeDataInRequest,
		// ModuleListMiddleware): they write it by design
		installs := false
		for _, wv := range CallsTo(fn, "context.WithValue") {
			if k, isC := ConstStr(stripMI(Arg(wv, 1))); isC && k == "data" {
				installs = true
			}
		}
		if installs {
			continue
		}
		for _, call := range CallsTo(fn, fnCtxValue) {
			if k, isC := ConstStr(ctxKeyArg(call)); !isC || k != "data" {
				continue
			}
			n++
			bad, at := "", posf(c, call)
			seen := map[ssa.Value]bool{}
			var walk func(v ssa.Value, d int)
			walk = func(v ssa.Value, d int) {
				if v == nil || seen[v] || d > 6 || v.Referrers() == nil {
					return
				}
				seen[v] = true
				for _, ref := range *v.Referrers() {
					switch x := ref.(type) {
					case *ssa.TypeAssert:
						walk(x, d+1)
					case *ssa.Extract:
						walk(x, d+1)
					case *ssa.Phi:
						walk(x, d+1)
					case *ssa.ChangeType:
						walk(x, d+1)
					case *ssa.MapUpdate:
						if x.Map == v {
							bad, at = "written directly", posf(c, x)
						}
					case *ssa.Call:
						cn := Callee(x)
						if (cn == "(ab.HTMLData).Merge" || cn == "(ab.HTMLData).MergeKV") && len(x.Call.Args) > 0 && x.Call.Args[0] == v {
							bad, at = "receiver of "+cn+", which writes its receiver", posf(c, x)
						}
					}
				}
			}
			walk(call.Value(), 0)
			r.Check(bad == "", rule, name, "request data object read only", at, "merged into the step's own data, never written", "the request's shared data object (CTXKeyData) is "+bad+": what this step adds (for mails: the token link) stays in an object other steps and, with application-wide data, other clients render")
		}
	}
	if n < 2 {
		r.Unknown(rule, "", "census", "-", sprintf("only %d readers of the request data object found (confirmed by hand: 2 outside MergeDataInRequest)", n))
	}
}
