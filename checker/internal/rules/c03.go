package rules

import (
	"strings"

	. "abverif/internal/engine"

	"golang.org/x/tools/go/ssa"
)

// vetoModule describes a module that may veto logins.
type vetoModule struct {
	pkg  string // "ab/lock"
	name string
	// allowFact recognises the fact under which the veto handler may decline
	// (return false,nil) and under which the middleware may pass the request on.
	allowFact func(c *Ctx, f Fact) bool
}

var vetoModules = []vetoModule{
	{pkg: "ab/lock", name: "lock", allowFact: func(c *Ctx, f Fact) bool {
		r := f.Rel()
		if r.B == nil || r.Pol {
			return false
		}
		call, _ := CallOf(r.B)
		return call != nil && Callee(call) == "ab/lock.IsLocked"
	}},
	{pkg: "ab/confirm", name: "confirm", allowFact: func(c *Ctx, f Fact) bool {
		r := f.Rel()
		if r.B == nil || !r.Pol {
			return false
		}
		call, _ := CallOf(r.B)
		return call != nil && call.Common().IsInvoke() && call.Common().Method.Name() == "GetConfirmed" && c.isUserType(call.Common().Value.Type())
	}},
}

// isInteractive: creds of an interactive login (everything except the
// remember cookie and a just-completed registration).
func isInteractive(cs []Cred) bool {
	for _, cr := range flatten(cs) {
		if cr.Kind == "remember" || cr.Kind == "register" {
			return false
		}
	}
	return len(cs) > 0
}

// tailTarget follows "return f(...)" wrappers: if fn's only action is to
// return the result of a static call to a repository function, that function.
func (c *Ctx) tailTarget(fn *ssa.Function) *ssa.Function {
	if fn == nil || len(fn.Blocks) != 1 {
		return fn
	}
	var ret *ssa.Return
	for _, in := range fn.Blocks[0].Instrs {
		if r, ok := in.(*ssa.Return); ok {
			ret = r
		}
	}
	if ret == nil || len(ret.Results) == 0 {
		return fn
	}
	call, _ := CallOf(ret.Results[0])
	if call == nil {
		return fn
	}
	if f := StaticCallee(call); f != nil && c.inRepo(f) {
		return f
	}
	return fn
}

// C03: locked / unconfirmed accounts cannot log in; middlewares block them.
func C03(c *Ctx) {
	r := c.R
	r.Explanation = "Static necessary conditions for C03: (1) veto coverage matrix: every interactive session issuance (all except remember-cookie and registration) is dominated by the not-handled/no-error outcome of a FireBefore(E) such that each veto module (lock, confirm) registers a Before(E) handler; (2) a veto handler declines (false,nil) only under !IsLocked(user) resp. GetConfirmed()==true, and the user it inspects is the context user; (3) lock.Middleware / confirm.Middleware call next.ServeHTTP only under that same fact about the user freshly obtained by LoadCurrentUserP; (4) IsLocked compares GetLocked() with the current time by After; (5) StartConfirmation marks the account unconfirmed with a fresh selector/verifier before saving."
	r.NotDecided = []string{"effects of handler order between two veto modules (either order vetoes)", "freshness of the stored user (integrator's storage)", "confirm has no veto on EventOAuth2 by upstream design (listed as known finding)"}

	// events each veto module listens on (Before)
	listens := map[string]map[int64]*ssa.Function{}
	for _, vm := range vetoModules {
		listens[vm.pkg] = map[int64]*ssa.Function{}
		if c.P.ByPath[strings.Replace(vm.pkg, "ab", RepoPath, 1)] == nil {
			continue
		}
		for _, w := range c.wiring {
			if w.Before && w.Const && !w.Conditional && pkgOf(w.In) == vm.pkg && w.Handler != nil {
				listens[vm.pkg][w.Event] = w.Handler
			}
		}
		if len(listens[vm.pkg]) == 0 {
			r.Bad("C03.veto-wire", vm.pkg, "Before(*)", "-", "veto module registers no Before handler at all")
		}
	}

	// (1) matrix
	nSites := 0
	for _, s := range c.Issuances() {
		if !s.Op.Const {
			continue
		}
		creds := c.CredsAt(s.Op.Call)
		if !isInteractive(creds) {
			continue
		}
		nSites++
		fn := FuncName(s.Fn)
		pos := posf(c, s.Op.Call)
		gates := c.gateFires(s.Op.Call)
		for _, vm := range vetoModules {
			if len(listens[vm.pkg]) == 0 {
				continue
			}
			covered := ""
			for _, g := range gates {
				if h := listens[vm.pkg][g.Event]; h != nil {
					covered = c.EventName(g.Event) + " -> " + FuncName(h)
				}
			}
			construct := "PutSession(uid)×" + vm.name
			if covered != "" {
				r.Ok("C03.veto", fn, construct, pos, "gated by not-handled of FireBefore("+covered+")")
			} else {
				r.Bad("C03.veto", fn, construct, pos, "login path writes the session without a dominating FireBefore of an event on which "+vm.name+" registers its veto (gates seen: "+c.fireNames(gates)+"): a "+map[string]string{"lock": "locked", "confirm": "unconfirmed"}[vm.name]+" account completes the login")
			}
		}
		// the fire's error must be propagated and the request must carry the user being logged in
		for _, g := range gates {
			if g.Event == c.Event("EventAuth") || g.Event == c.Event("EventOAuth2") {
				ok, why := c.errPropagated(g.Call)
				r.Check(ok, "C03.veto-err", fn, "FireBefore("+c.EventName(g.Event)+").err", posf(c, g.Call), why, "error of the veto fire is not propagated: "+why)
				ro := c.identityOrigins(c.Origins(g.Req))
				vo := c.identityOrigins(c.Origins(s.Op.Val))
				// the identity written must be (derived from) the user the veto handlers saw,
				// or be that user's look-up key
				bound := sameOriginValue(ro, vo)
				if !bound {
					for _, o := range ro {
						if call, ok := o.V.(ssa.CallInstruction); ok {
							if key := lookupKey(call); key != nil && (key == s.Op.Val || sameNames(c.Origins(key), c.Origins(s.Op.Val))) {
								bound = true
							}
						}
					}
				}
				// … on every way of arriving at the fire: a request that may already hold
				// another user (a helper that leaves an existing context user in place)
				// has the vetoes inspect that other account
				if bound {
					if hasInstall := len(c.ctxChain(g.Req, 0).may["user"]) > 0; hasInstall {
						if _, must := c.ctxChain(g.Req, 0).must["user"]; !must {
							bound = false
						}
					}
				}
				r.Check(bound, "C03.veto-subject", fn, "FireBefore("+c.EventName(g.Event)+").request", posf(c, g.Call), "veto handlers inspect the user that is then logged in", "the request handed to the veto handlers (identities: "+names(ro)+") does not carry the user whose PID is written ("+names(vo)+") on every path: where it does not, lock and confirm inspect whoever the request already named")
			}
		}
	}
	r.Extra["interactive_issuance_sites"] = nSites
	r.Extra["interactive_issuance_sites_reference"] = 7

	// (2) veto handler exits
	for _, vm := range vetoModules {
		seen := map[*ssa.Function]bool{}
		for ev, h := range listens[vm.pkg] {
			body := c.tailTarget(h)
			if seen[body] {
				continue
			}
			seen[body] = true
			c.vetoHandlerExits("C03.veto-exit", vm, body, c.EventName(ev))
		}
	}
	// (3) middlewares: the request-time functions of the package that hand the
	// request on to a wrapped handler (whatever their form: closure, named type)
	for _, vm := range vetoModules {
		bodies := c.middlewareBodies(vm.pkg)
		if len(bodies) == 0 {
			r.Info("C03.middleware", vm.pkg, "Middleware", "-", "package has no middleware")
			continue
		}
		c.vetoMiddleware(vm, bodies)
	}
	// (4) IsLocked shape
	c.isLockedShape()
	// (5) StartConfirmation
	c.startConfirmationShape()
}

func (c *Ctx) vetoHandlerExits(rule string, vm vetoModule, h *ssa.Function, ev string) {
	r := c.R
	name := FuncName(h)
	n := 0
	for _, b := range h.Blocks {
		for _, in := range b.Instrs {
			ret, ok := in.(*ssa.Return)
			if !ok || len(ret.Results) != 2 || c.isErrorExit(ret) {
				continue
			}
			pos := posf(c, ret)
			hv, isC := ConstBool(ret.Results[0])
			if isC && hv {
				n++
				r.Ok(rule, name, "return true", pos, "vetoes")
				continue
			}
			if !isC {
				r.Unknown(rule, name, "return <non-constant>", pos, "handled result is not a constant")
				continue
			}
			n++
			fs := FactsAtInstr(ret)
			var allow *Fact
			for i := range fs {
				if vm.allowFact(c, fs[i]) {
					allow = &fs[i]
				}
			}
			if allow == nil {
				r.Bad(rule, name, "return false", pos, vm.name+" veto handler can let the login proceed (return false, nil) on a path that has not established that the account is "+map[string]string{"lock": "not locked", "confirm": "confirmed"}[vm.name], factList(c, ret)...)
				continue
			}
			// the user inspected is the current (context) user
			call, _ := CallOf(allow.Rel().B)
			var subj ssa.Value
			if call.Common().IsInvoke() {
				subj = call.Common().Value
			} else {
				subj = Arg(call, 0)
			}
			fromCtx := HasOrigin(c.Origins(subj), func(o Origin) bool {
				return o.Kind == "call" && (strings.HasPrefix(o.Name, fnCurrentUser+"#") || strings.HasPrefix(o.Name, fnCurrentUserP+"#") || strings.HasPrefix(o.Name, fnLoadCurrentUser))
			})
			r.Check(fromCtx, rule, name, "return false", pos, "declines only when the context user is "+map[string]string{"lock": "not locked", "confirm": "confirmed"}[vm.name], "the account state tested is not that of the context user (origins: "+names(c.Origins(subj))+")")
		}
	}
	if n == 0 {
		r.Unknown(rule, name, "returns", "-", "no non-error return found in veto handler for "+ev)
	}
}

// middlewareBodies: request-time functions of a package that call a wrapped
// http.Handler.
func (c *Ctx) middlewareBodies(pkg string) []*ssa.Function {
	var out []*ssa.Function
	for _, fn := range c.P.Funcs {
		if pkgOf(fn) != pkg || !hasRequestParams(fn) {
			continue
		}
		if len(CallsTo(fn, fnServeHTTP)) > 0 {
			out = append(out, fn)
		}
	}
	return out
}

func (c *Ctx) vetoMiddleware(vm vetoModule, bodies []*ssa.Function) {
	r := c.R
	n := 0
	for _, body := range bodies {
		for _, call := range CallsTo(body, fnServeHTTP) {
			n++
			name := FuncName(body)
			pos := posf(c, call)
			fs := FactsAtInstr(call.(ssa.Instruction))
			var allow *Fact
			for i := range fs {
				if vm.allowFact(c, fs[i]) {
					allow = &fs[i]
				}
			}
			if allow == nil {
				r.Bad("C03.middleware", name, "next.ServeHTTP", pos, vm.name+".Middleware hands the request to the wrapped handler on a path that has not established the account is "+map[string]string{"lock": "not locked", "confirm": "confirmed"}[vm.name], factList(c, call.(ssa.Instruction))...)
				continue
			}
			ck, _ := CallOf(allow.Rel().B)
			var subj ssa.Value
			if ck.Common().IsInvoke() {
				subj = ck.Common().Value
			} else {
				subj = Arg(ck, 0)
			}
			fresh := HasOrigin(c.Origins(subj), func(o Origin) bool {
				return o.Kind == "call" && (strings.HasPrefix(o.Name, fnLoadCurrentUserP+"#") || strings.HasPrefix(o.Name, fnLoadCurrentUser+"#") || strings.HasPrefix(o.Name, fnCurrentUser+"#") || strings.HasPrefix(o.Name, fnCurrentUserP+"#"))
			})
			r.Check(fresh, "C03.middleware", name, "next.ServeHTTP", pos, "wrapped handler runs only when the session's user, loaded for this request, is "+map[string]string{"lock": "not locked", "confirm": "confirmed"}[vm.name], "state tested is not that of the session's current user")
		}
	}
	if n == 0 {
		r.Unknown("C03.middleware", vm.pkg, "next.ServeHTTP", "-", "no call of the wrapped handler found")
	}
}

func (c *Ctx) isLockedShape() {
	r := c.R
	fn := c.P.FuncOpt("ab/lock.IsLocked")
	if fn == nil {
		return
	}
	name := FuncName(fn)
	ok := false
	detail := "result is not GetLocked().After(<current time>)"
	for _, b := range fn.Blocks {
		for _, in := range b.Instrs {
			ret, isRet := in.(*ssa.Return)
			if !isRet || len(ret.Results) != 1 {
				continue
			}
			call, _ := CallOf(ret.Results[0])
			if call == nil || Callee(call) != "(time.Time).After" {
				continue
			}
			recv, arg := Arg(call, 0), Arg(call, 1)
			recvOK := HasOrigin(c.rawOrigins(recv), func(o Origin) bool { return o.Kind == "call" && strings.Contains(o.Name, ".GetLocked#") })
			argOK := HasOrigin(c.rawOrigins(arg), func(o Origin) bool { return o.Kind == "call" && strings.HasPrefix(o.Name, "time.Now#") })
			argNotUser := !HasOrigin(c.rawOrigins(arg), func(o Origin) bool { return o.Kind == "call" && strings.Contains(o.Name, ".GetLocked#") })
			if recvOK && argOK && argNotUser {
				ok = true
			}
		}
	}
	r.Check(ok, "C03.islocked", name, "GetLocked().After(now)", c.P.Pos(fn.Pos()), "locked iff the lock instant is after the current time", detail)
}

// rawOrigins slices without treating user accessors as transparent, so that
// accessor names stay visible.
func (c *Ctx) rawOrigins(v ssa.Value) []Origin {
	s := Slicer{Through: func(call ssa.CallInstruction, idx int) ([]ssa.Value, bool) {
		cc := call.Common()
		if cc.IsInvoke() {
			return nil, false
		}
		name := Callee(call)
		if name == "" || strings.HasPrefix(name, "var:") || originCalls[name] || userSources[name] {
			return nil, false
		}
		if f := StaticCallee(call); f != nil && c.inRepo(f) && !transparentRepo(name) {
			return nil, false
		}
		if len(cc.Args) == 0 {
			return nil, false
		}
		return cc.Args, true
	}}
	return s.Origins(v)
}

func (c *Ctx) startConfirmationShape() {
	r := c.R
	fn := c.P.FuncOpt("(*ab/confirm.Confirm).StartConfirmation")
	if fn == nil {
		return
	}
	name := FuncName(fn)
	saves := CallsTo(fn, fnSave)
	if len(saves) == 0 {
		r.Bad("C03.restart", name, "Save", "-", "StartConfirmation never saves the user")
		return
	}
	for _, m := range []string{"PutConfirmed", "PutConfirmSelector", "PutConfirmVerifier"} {
		ok := false
		pos := c.P.Pos(fn.Pos())
		for _, call := range c.userCalls(fn, m) {
			for _, s := range saves {
				if InstrDominates(call.(ssa.Instruction), s.(ssa.Instruction)) {
					if m == "PutConfirmed" {
						if b, isC := ConstBool(Arg(call, 0)); !isC || b {
							continue
						}
					}
					ok = true
					pos = posf(c, call)
				}
			}
		}
		r.Check(ok, "C03.restart", name, m, pos, "set before the save ("+m+")", "a (re)started confirmation does not "+map[string]string{"PutConfirmed": "mark the account unconfirmed (PutConfirmed(false))", "PutConfirmSelector": "store a fresh selector", "PutConfirmVerifier": "store a fresh verifier"}[m]+" before saving: the account stays loginable while confirmation is outstanding")
	}
}

// lockAnswersLocked: whichever of lock's handlers answers an attempt on a
// locked account — BeforeAuth for the right password, AfterAuthFail for a
// wrong one — lets the request go on only where the account was found not
// locked. (C16: both outcomes get the locked answer; C03 reads the same
// structure for the veto alone.)
func (c *Ctx) lockAnswersLocked(rule string) {
	var vm vetoModule
	for _, m := range vetoModules {
		if m.name == "lock" {
			vm = m
		}
	}
	seen := map[*ssa.Function]bool{}
	for _, hn := range []string{"(*ab/lock.Lock).BeforeAuth", "(*ab/lock.Lock).AfterAuthFail"} {
		h := c.P.FuncOpt(hn)
		if h == nil {
			c.R.Unknown(rule, hn, "handler", "-", "not found")
			continue
		}
		body := c.tailTarget(h)
		if seen[body] {
			continue
		}
		seen[body] = true
		c.vetoHandlerExits(rule, vm, body, "EventAuth/EventAuthFail")
	}
}
