package rules

import (
	"strings"

	. "abverif/internal/engine"

	"golang.org/x/tools/go/ssa"
)

// hashedPasswordPuts checks that every PutPassword in fn stores result #0 of
// Hasher.GenerateHash applied to the submitted/new password.
func (c *Ctx) hashedPasswordPuts(rule string, fn *ssa.Function) int {
	r := c.R
	name := FuncName(fn)
	n := 0
	for _, call := range c.userCalls(fn, "PutPassword") {
		n++
		pos := posf(c, call)
		arg := Arg(call, 0)
		hc, idx := CallOf(arg)
		if hc == nil || Callee(hc) != fnHashGenerate || idx != 0 {
			r.Bad(rule, name, "PutPassword.arg", pos, "value stored as the password is not result #0 of Hasher.GenerateHash (origins: "+names(c.rawOrigins(arg))+"): a recoverable form of the password would be stored")
			continue
		}
		// the hash must be known good (err nil) at the put
		if he := ErrResult(hc); he == nil || !ErrNilAt(call.(ssa.Instruction), he) {
			r.Bad(rule, name, "PutPassword|hash err", pos, "PutPassword is not dominated by GenerateHash succeeding")
			continue
		}
		// input of the hash: submitted password accessor or a string parameter
		in := c.rawOrigins(Arg(hc, 0))
		okIn := HasOrigin(in, func(o Origin) bool {
			return (o.Kind == "call" && strings.Contains(o.Name, ".GetPassword#")) || o.Kind == "param"
		})
		r.Check(okIn, rule, name, "PutPassword.arg", pos, "stores Hasher.GenerateHash(<submitted password>)", "hash input is not the submitted password (origins: "+names(in)+")")
	}
	return n
}

// C06: a password change revokes old password, recovery link, remember tokens.
func C06(c *Ctx) {
	r := c.R
	r.Explanation = "Static necessary conditions for C06: (1) in recover.EndPost, Authboss.UpdatePassword (and register.Post) the value given to PutPassword is result #0 of Hasher.GenerateHash(<submitted password>) on the hash-succeeded edge, followed by a storer write; the default hasher hands the password bytes to bcrypt unmodified, for hashing and comparing alike; (2) after the successful Save, recover.EndPost fires After(EventRecoverEnd) on every path to a success exit, with a request carrying the changed user, and returns the fire's error; remember registers AfterPasswordReset on that event, which deletes the remember tokens of the context user's PID (error returned) and the cookie; (3) UpdatePassword, after Save succeeded, reaches a nil return only through DelRememberTokens(user.GetPID()) or the failed RememberingServerStorer type assertion; (4) the recovery token is cleared on the same path (C05 single-use rule, re-evaluated here)."
	r.NotDecided = []string{"bcrypt semantics beyond the 72-byte input contract of x/crypto (which rejects longer inputs)", "that the integrator's DelRememberTokens removes every token", "other browsers' live sessions (documented upstream as out of scope)"}

	endPost := c.P.Func("(*ab/recover.Recover).EndPost")
	upd := c.P.Func("(*ab.Authboss).UpdatePassword")
	for _, fn := range []*ssa.Function{endPost, upd} {
		if c.hashedPasswordPuts("C06.hash", fn) == 0 {
			r.Bad("C06.hash", FuncName(fn), "PutPassword", "-", "no PutPassword found: the password is not changed here")
		}
		c.mustSaveAfterPut("C06.save", fn, nil)
		if k, at := c.errHandlingAll(fn, fnSave); k != "" {
			r.Bad("C06.save-err", FuncName(fn), "Save.err", posf(c, at), "error of Save is "+k)
		} else {
			r.Ok("C06.save-err", FuncName(fn), "Save.err", "-", "Save errors tested or returned")
		}
	}
	c.hasherPassThrough()

	// (2) recover end event
	re := c.Event("EventRecoverEnd")
	name := FuncName(endPost)
	saves := CallsTo(endPost, fnSave)
	var fire *Fire
	for _, f := range Fires(endPost) {
		if !f.Before && f.Const && f.Event == re {
			ff := f
			fire = &ff
		}
	}
	if fire == nil {
		r.Bad("C06.revoke-event", name, "FireAfter(EventRecoverEnd)", "-", "recover.EndPost never fires After(EventRecoverEnd): remember tokens issued before the password change keep working")
	} else if len(saves) == 0 {
		r.Bad("C06.revoke-event", name, "Save", "-", "no Save in EndPost")
	} else {
		for _, s := range saves {
			se := ErrResult(s)
			// from the save's nil edge every path to a non-error exit passes the fire
			q := PathQuery{From: s.(ssa.Instruction), Cut: func(i ssa.Instruction) bool { return i == fire.Call.(ssa.Instruction) }, GoalP: c.nonErrorReturn}
			_ = se
			if p := q.Find(); p != nil {
				r.Bad("C06.revoke-event", name, "FireAfter(EventRecoverEnd)", posf(c, fire.Call), "a path from the successful Save reaches a non-error exit without firing After(EventRecoverEnd)", c.P.DescribePath(p)...)
			} else {
				r.Ok("C06.revoke-event", name, "FireAfter(EventRecoverEnd)", posf(c, fire.Call), "fired on every path from Save to a non-error exit")
			}
		}
		ok, why := c.errPropagated(fire.Call)
		r.Check(ok, "C06.revoke-err", name, "FireAfter(EventRecoverEnd).err", posf(c, fire.Call), why, "error of the revocation event is not returned: recovery reports success although remember tokens may not have been revoked ("+why+")")
		// request carries the changed user
		var putRecv []Origin
		for _, call := range c.userCalls(endPost, "PutPassword") {
			putRecv = append(putRecv, c.identityOrigins(c.Origins(call.Common().Value))...)
		}
		r.Check(sameOriginValue(c.identityOrigins(c.Origins(fire.Req)), putRecv), "C06.revoke-subject", name, "FireAfter(EventRecoverEnd).request", posf(c, fire.Call), "request context carries the user whose password changed", "request handed to the event does not carry the user whose password was changed")
	}
	c.rememberRevokeWire("C06.wire", "C06.revoke")
	c.readerVerbatim("C06.reader")

	// (3) UpdatePassword
	un := FuncName(upd)
	dels := CallsTo(upd, fnDelRemember)
	if len(dels) == 0 {
		r.Bad("C06.update-revoke", un, "DelRememberTokens", "-", "UpdatePassword never deletes remember tokens")
	}
	// every successful return has changed and saved the password: no shortcut
	// (e.g. "same password as before") may skip the save and the revocation
	{
		q := PathQuery{StartBlock: upd.Blocks[0], Cut: IsCallTo(fnSave), GoalP: c.nonErrorReturn}
		if p := q.Find(); p != nil {
			r.Bad("C06.update-always", un, "Save on every success path", c.P.Pos(upd.Pos()), "UpdatePassword can report success without saving a new password hash (and therefore without revoking the remember tokens): a caller who rotates a password, even to the same value, is told that outstanding tokens are gone when they are not", c.P.DescribePath(p)...)
		} else {
			r.Ok("C06.update-always", un, "Save on every success path", c.P.Pos(upd.Pos()), "every non-error return passes Save")
		}
	}
	for _, s := range CallsTo(upd, fnSave) {
		failedAssert := func(f Fact) bool {
			rel := f.Rel()
			if rel.B == nil || rel.Pol {
				return false
			}
			e, isE := rel.B.(*ssa.Extract)
			if !isE {
				return false
			}
			ta, isTA := e.Tuple.(*ssa.TypeAssert)
			return isTA && ta.CommaOk && strings.HasSuffix(ta.AssertedType.String(), "RememberingServerStorer")
		}
		q := PathQuery{From: s.(ssa.Instruction), Cut: IsCallTo(fnDelRemember), GoalP: c.nonErrorReturn, Prune: func(a, b *ssa.BasicBlock) bool {
			// the edge on which the storer turned out not to support remember tokens is allowed
			f, ok := EdgeFact(a, b)
			return ok && failedAssert(f)
		}}
		if p := q.Find(); p != nil {
			r.Bad("C06.update-revoke", un, "DelRememberTokens|after Save", posf(c, s), "UpdatePassword can report success without revoking remember tokens although the storer supports it", c.P.DescribePath(p)...)
		} else {
			r.Ok("C06.update-revoke", un, "DelRememberTokens|after Save", posf(c, s), "every success exit after Save revokes the tokens (or the storer cannot remember)")
		}
	}
	for _, d := range dels {
		pidOK := HasOrigin(c.Origins(Arg(d, 1)), func(o Origin) bool { return o.Kind == "param" && c.isUserType(o.V.Type()) })
		r.Check(pidOK, "C06.update-revoke", un, "DelRememberTokens.pid", posf(c, d), "PID of the user whose password changed", "PID passed is not that of the user argument")
		// a revocation that failed is not a success: the caller must learn that the old tokens are still there
		k, _ := c.errHandling(d)
		okE := k == "returned"
		whyE := "error is " + k
		if k == "tested" {
			okE, whyE = c.errPropagated(d)
		}
		r.Check(okE, "C06.update-revoke", un, "DelRememberTokens.err", posf(c, d), "handed back to the caller", "a failed revocation of the remember tokens is not reported ("+whyE+"): UpdatePassword answers success while every old token still authenticates")
	}

	// (4) token spent on the same path
	for _, m := range []string{"PutRecoverSelector", "PutRecoverVerifier"} {
		ok := false
		pos := "-"
		for _, call := range c.userCalls(endPost, m) {
			pos = posf(c, call)
			if s, isC := ConstStr(Arg(call, 0)); isC && s == "" {
				for _, pp := range c.userCalls(endPost, "PutPassword") {
					if call.Block() == pp.Block() || InstrDominates(pp.(ssa.Instruction), call.(ssa.Instruction)) || InstrDominates(call.(ssa.Instruction), pp.(ssa.Instruction)) {
						ok = true
					}
					// the password is set inside a helper (hash, then set): every completing
					// path from there passes the clearing call
					clr := call.(ssa.Instruction)
					q := PathQuery{From: pp.(ssa.Instruction), Cut: func(i ssa.Instruction) bool { return i == clr }, GoalP: c.nonErrorReturn}
					if Reaches(pp.(ssa.Instruction), clr) && q.Find() == nil {
						ok = true
					}
				}
			}
		}
		r.Check(ok, "C06.token-spent", name, m+`("")`, pos, "recovery token cleared together with the password change", "recovery token is not cleared on the password-change path")
	}
}

// hasherPassThrough: the default hasher hands the password to bcrypt as is.
func (c *Ctx) hasherPassThrough() {
	r := c.R
	isParamBytes := func(v ssa.Value) bool {
		cv, ok := v.(*ssa.Convert)
		if !ok {
			return false
		}
		_, isP := cv.X.(*ssa.Parameter)
		return isP
	}
	gen := c.P.Func("(*ab.bcryptHasher).GenerateHash")
	okG := false
	posG := c.P.Pos(gen.Pos())
	for _, call := range CallsTo(gen, fnBcryptGen) {
		posG = posf(c, call)
		if isParamBytes(Arg(call, 0)) {
			okG = true
		}
	}
	r.Check(okG, "C06.hasher", FuncName(gen), "bcrypt.GenerateFromPassword(arg)", posG, "password bytes handed to bcrypt unmodified", "the default hasher transforms (truncates, slices, re-encodes) the password before hashing: distinct passwords could share a hash")
	// no path returns a nil error without passing bcrypt
	cmp := c.P.Func("(*ab.bcryptHasher).CompareHashAndPassword")
	okC := false
	posC := c.P.Pos(cmp.Pos())
	for _, call := range CallsTo(cmp, fnBcryptCmp) {
		posC = posf(c, call)
		if isParamBytes(Arg(call, 0)) && isParamBytes(Arg(call, 1)) {
			// and its result is what is returned
			if e := call.Value(); e != nil && e.Referrers() != nil {
				for _, ref := range *e.Referrers() {
					if _, isRet := ref.(*ssa.Return); isRet {
						okC = true
					}
				}
			}
		}
	}
	r.Check(okC, "C06.hasher", FuncName(cmp), "bcrypt.CompareHashAndPassword(args)", posC, "hash and password handed to bcrypt unmodified, verdict returned as is", "the default hasher does not hand hash and password to bcrypt unmodified or does not return bcrypt's verdict")
	if len(cmp.Blocks) > 0 {
		q := PathQuery{StartBlock: cmp.Blocks[0], Cut: func(i ssa.Instruction) bool {
			call, ok := i.(ssa.CallInstruction)
			return ok && Callee(call) == fnBcryptCmp
		}, GoalP: c.nonErrorReturn}
		if p := q.Find(); p != nil {
			r.Bad("C06.hasher", FuncName(cmp), "no verdict without bcrypt", posf(c, p[len(p)-1]), "the default hasher can report a match (a nil error) on a way that never asked bcrypt — for a stored hash of another form, an empty list of alternative hashers: any password is then accepted for such an account", c.P.DescribePath(p)...)
		} else {
			r.Ok("C06.hasher", FuncName(cmp), "no verdict without bcrypt", posC, "every way to a nil verdict passes bcrypt.CompareHashAndPassword")
		}
	}
	// call sites: what is hashed at registration/recovery and what is compared at
	// login is the submitted password as typed — the sibling sites must agree, so a
	// site that trims, folds or re-encodes its input rejects (and counts as
	// failures) correct passwords set through another site
	for _, f := range c.P.Funcs {
		if strings.HasSuffix(pkgOf(f), "/mocks") {
			continue
		}
		for _, call := range Calls(f) {
			cc := call.Common()
			if !cc.IsInvoke() || !strings.HasSuffix(cc.Value.Type().String(), ".Hasher") {
				continue
			}
			idx := -1
			switch cc.Method.Name() {
			case "CompareHashAndPassword":
				idx = 1
			case "GenerateHash":
				idx = 0
			}
			if idx < 0 {
				continue
			}
			// only where the hasher is used for the account's password (it may also
			// protect other secrets, e.g. recovery codes, which have their own rules)
			forPassword := false
			switch cc.Method.Name() {
			case "GenerateHash":
				for _, pp := range c.userCalls(f, "PutPassword") {
					if HasOrigin(c.rawOrigins(Arg(pp, 0)), func(o Origin) bool { return o.V == call.Value() }) {
						forPassword = true
					}
				}
				if _, isP := stripConv(Arg(call, idx)).(*ssa.Parameter); isP {
					forPassword = true // a pass-through wrapper
				}
			case "CompareHashAndPassword":
				hv := stripConv(Arg(call, 0))
				if hc, _ := CallOf(hv); hc != nil && hc.Common().IsInvoke() && hc.Common().Method.Name() == "GetPassword" {
					forPassword = true
				}
				if _, isP := hv.(*ssa.Parameter); isP {
					forPassword = true
				}
			}
			if !forPassword {
				r.Info("C06.hasher", FuncName(f), cc.Method.Name()+" (other secret)", posf(c, call), "the hasher is applied to something other than the account password here")
				continue
			}
			pw := stripConv(Arg(call, idx))
			okPW := false
			switch x := pw.(type) {
			case *ssa.Parameter:
				okPW = true
			case *ssa.Call:
				okPW = x.Call.IsInvoke() && x.Call.Method.Name() == "GetPassword" && len(x.Call.Args) == 0
			}
			r.Check(okPW, "C06.hasher", FuncName(f), cc.Method.Name()+"(password as submitted)", posf(c, call), "the submitted password reaches the hasher as typed", "the password is transformed ("+SafeString(pw)+") before it reaches the hasher: the sites that set a password and the site that checks it no longer agree on what the password is")
		}
	}
	for _, fn := range []*ssa.Function{gen} {
		for _, b := range fn.Blocks {
			for _, in := range b.Instrs {
				ret, ok := in.(*ssa.Return)
				if !ok || !ReturnsNilError(ret) {
					continue
				}
				hc, _ := CallOf(retStringSource(ret.Results[0]))
				r.Check(hc != nil && Callee(hc) == fnBcryptGen, "C06.hasher", FuncName(fn), "return hash", posf(c, ret), "returned hash is bcrypt's output", "a success return of GenerateHash does not return bcrypt's output")
			}
		}
	}
}

// retStringSource strips string(...) conversions.
func retStringSource(v ssa.Value) ssa.Value {
	for {
		switch x := v.(type) {
		case *ssa.Convert:
			v = x.X
		case *ssa.ChangeType:
			v = x.X
		default:
			return v
		}
	}
}

// rememberRevokeWire: remember registers, on After(EventRecoverEnd), a handler
// that deletes the context user's remember tokens and this browser's cookie.
func (c *Ctx) rememberRevokeWire(ruleWire, ruleRevoke string) {
	r := c.R
	re := c.Event("EventRecoverEnd")
	// wiring in remember
	if c.P.ByPath[RepoPath+"/remember"] != nil {
		ws := c.wireFind(false, re, "ab/remember")
		if len(ws) == 0 {
			r.Bad(ruleWire, "(*ab/remember.Remember).Init", "After(EventRecoverEnd)", "-", "remember registers no handler on After(EventRecoverEnd)")
		}
		for _, w := range ws {
			if w.Handler == nil {
				r.Unknown(ruleWire, FuncName(w.In), "After(EventRecoverEnd)", posf(c, w.Call), "handler unresolved")
				continue
			}
			r.Ok(ruleWire, FuncName(w.In), "After(EventRecoverEnd)->"+w.Name, posf(c, w.Call), "registered")
			h := w.Handler
			hn := FuncName(h)
			dels := CallsTo(h, fnDelRemember)
			if len(dels) == 0 {
				r.Bad(ruleRevoke, hn, "DelRememberTokens", "-", "handler does not delete the account's remember tokens")
			}
			for _, d := range dels {
				// the subject is the user the firing handler put into the request
				// (CurrentUser prefers it); the browser's own session identity
				// (CurrentUserID, GetSession) is a different account in general
				isCtxUser := func(o Origin) bool {
					return o.Kind == "call" && (strings.HasPrefix(o.Name, fnCurrentUser+"#") || strings.HasPrefix(o.Name, fnCurrentUserP+"#"))
				}
				pidOrigins := c.Origins(Arg(d, 1))
				pidOK := HasOrigin(pidOrigins, isCtxUser)
				for _, o := range pidOrigins {
					if o.Kind == "call" && !isCtxUser(o) {
						pidOK = false
					}
				}
				r.Check(pidOK, ruleRevoke, hn, "DelRememberTokens.pid", posf(c, d), "deletes the tokens of the context user's PID", "PID passed to DelRememberTokens is not the context user's (origins: "+names(c.Origins(Arg(d, 1)))+")")
				k, _ := c.errHandling(d)
				okE := k == "returned" || k == "tested"
				if k == "tested" {
					okE, _ = c.errPropagated(d)
				}
				// returned directly counts
				if e := ErrResult(d); e != nil && e.Referrers() != nil {
					for _, ref := range *e.Referrers() {
						if _, isRet := ref.(*ssa.Return); isRet {
							okE = true
						}
					}
				}
				r.Check(okE, ruleRevoke, hn, "DelRememberTokens.err", posf(c, d), "error returned to the recover handler", "error of DelRememberTokens is not returned")
				// unconditional: every non-error path of the handler passes it
				q := PathQuery{StartBlock: h.Blocks[0], Cut: func(i ssa.Instruction) bool { return i == d.(ssa.Instruction) }, GoalP: c.nonErrorReturn}
				if p := q.Find(); p != nil {
					r.Bad(ruleRevoke, hn, "DelRememberTokens|all paths", posf(c, d), "handler can return without error and without deleting the tokens", c.P.DescribePath(p)...)
				} else {
					r.Ok(ruleRevoke, hn, "DelRememberTokens|all paths", posf(c, d), "every non-error return passes it")
				}
			}
			rm := c.P.ConstString("", "CookieRemember")
			hasDelCookie := false
			for _, op := range c.StateOps(h) {
				if op.Op == "del" && op.Store == "cookie" && op.Key == rm {
					hasDelCookie = true
				}
			}
			r.Check(hasDelCookie, ruleRevoke, hn, "DelCookie(rm)", c.P.Pos(h.Pos()), "this browser's cookie removed", "handler does not delete the remember cookie")
		}
	}

}

// revokeSubject: the request handed to After(EventRecoverEnd) — on which
// remember revokes its tokens for "the current user" — carries the user whose
// password was just changed.
func (c *Ctx) revokeSubject(rule string) {
	r := c.R
	endPost := c.P.FuncOpt("(*ab/recover.Recover).EndPost")
	if endPost == nil {
		r.Unknown(rule, "(*ab/recover.Recover).EndPost", "handler", "-", "not found")
		return
	}
	re := c.Event("EventRecoverEnd")
	name := FuncName(endPost)
	for _, f := range Fires(endPost) {
		if f.Before || !f.Const || f.Event != re {
			continue
		}
		var putRecv []Origin
		for _, call := range c.userCalls(endPost, "PutPassword") {
			putRecv = append(putRecv, c.identityOrigins(c.Origins(call.Common().Value))...)
		}
		ok := sameOriginValue(c.identityOrigins(c.Origins(f.Req)), putRecv)
		if ok {
			if _, must := c.ctxChain(f.Req, 0).must["user"]; !must {
				ok = false
			}
		}
		r.Check(ok, rule, name, "FireAfter(EventRecoverEnd).request", posf(c, f.Call), "request context carries the user whose password changed", "the request handed to After(EventRecoverEnd) does not carry the user whose password was changed: the remember tokens revoked are those of whoever the session names (or nobody's)")
	}
}
